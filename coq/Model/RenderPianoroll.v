(** Model/RenderPianoroll.v — pianoroll_lib.PianorollSequence.to_sequence at step level, and the
    canonical pianoroll sequences (C06).

    An event (frame) is the list of the pitch OFFSETS ([pitch - min_pitch]) that sound in it.
    [pr_render] follows the loop: [open] is the dict of open notes (pitch offset -> start step, in
    insertion order); per frame, first every open pitch that is not in the frame is closed at this
    step, then every frame pitch that is not open is opened.  Notes are emitted when they close
    (Python creates them when they open; the harness compares bags).  After the loop the notes
    still open end at [final_step], and [total_time] is that step:
    - [legacy = false]: the code AFTER notes/C06-fix-2.diff: [final_step = len(self)];
    - [legacy = true]: the code before it: [final_step = step + (len(open_notes) > 0)] with [step]
      the LAST INDEX (0 for an empty sequence) — a sequence whose last frame is silent is rendered
      one step short, and re-extraction returns one frame less.
    [Run/C06.v] takes the flag from the harness ([PR_LEGACY] in harness/vt/props/c06.py).

    [canonical_pianoroll legacy minp maxp s0 es]: BOOLEAN; [s0 >= 0]; every frame is a strictly
    ascending list of offsets within [0, maxp - minp] (what [np.where] returns); and, for the legacy
    code only, the last frame is not empty.
    No proofs here. *)
From Coq Require Import ZArith List Bool.
From NS Require Import Base.NoteSeq Gen.G07 Model.FqCommon Model.FqPianoroll Model.RenderCommon.
Import ListNotations.
Local Open Scope Z_scope.

Definition zmem (x : Z) (l : list Z) : bool := existsb (Z.eqb x) l.

(** frame pitches that are not open yet, each once, in frame order *)
Fixpoint pr_new (frame : list Z) (have : list Z) : list Z :=
  match frame with
  | [] => []
  | q :: r => if zmem q have then pr_new r have else q :: pr_new r (q :: have)
  end.

(** [open]: (pitch offset, absolute start step) *)
Fixpoint pr_render (v i pr minp : Z) (es : list (list Z)) (step : Z) (open : list (Z * Z))
  : list note * list (Z * Z) :=
  match es with
  | [] => ([], open)
  | frame :: r =>
      let closing := filter (fun o => negb (zmem (fst o) frame)) open in
      let staying := filter (fun o => zmem (fst o) frame) open in
      let opened := map (fun q => (q, step)) (pr_new frame (map fst open)) in
      let '(ns, op) := pr_render v i pr minp r (step + 1) (staying ++ opened) in
      (map (fun o => rnote (fst o + minp) v i pr false (snd o) step) closing ++ ns, op)
  end.

(** (notes, final absolute step) *)
Definition pr_to_step_notes (legacy : bool) (v i pr minp s0 : Z) (es : list (list Z)) : list note * Z :=
  let '(ns, op) := pr_render v i pr minp es s0 [] in
  let last_index := Z.max 0 (len es - 1) in
  let final := if legacy then s0 + last_index + (if is_nil op then 0 else 1) else s0 + len es in
  (ns ++ map (fun o => rnote (fst o + minp) v i pr false (snd o) final) op, final).

Definition pr_rseq (legacy : bool) (spq : Z) (ts : tsig) (v i pr minp s0 : Z) (es : list (list Z)) : seq :=
  let '(ns, final) := pr_to_step_notes legacy v i pr minp s0 es in
  rseq spq ts ns [] (max_end final ns).

Fixpoint ascending_from (lo : Z) (l : list Z) : bool :=
  match l with
  | [] => true
  | x :: r => (lo <=? x) && ascending_from (x + 1) r
  end.

Definition valid_frame (width : Z) (f : list Z) : bool :=
  ascending_from 0 f && forallb (fun q => q <? width) f.

Definition canonical_pianoroll (legacy : bool) (minp maxp s0 : Z) (es : list (list Z)) : bool :=
  (0 <=? s0) && forallb (valid_frame (maxp - minp + 1)) es
  && (negb legacy || match rev es with [] => true | f :: _ => negb (is_nil f) end).
