(** Model/WfOps.v — the two operations named by property C11 that no other property
    models: [merge_sequences] (sequences_lib.py:522-552) and [expand_section_groups]
    (sequences_lib.py:578-630).  Both are compositions of functions that ARE modelled
    elsewhere (protobuf MergeFrom / remove_redundant_data / concatenate_sequences in
    Model/TimeOps.v, extract_subsequence in Model/Extract.v); they are written here pass
    by pass on top of those models, which are imported read-only.  Times are exact ticks.
    No proofs in this file. *)
From Coq Require Import ZArith List Bool.
From NS Require Import Base.Sx Base.NoteSeq Gen.G02.
From NS Require Model.TimeOps Model.Extract.
Import ListNotations.
Local Open Scope Z_scope.

(** * merge_sequences

    [cat_seq = NoteSequence(); total_time = 0
     for seq in sequences: cat_seq.MergeFrom(seq); total_time = max(total_time, seq.total_time)
     cat_seq.total_time = total_time; cat_seq.ClearField('subsequence_info')
     return remove_redundant_data(cat_seq)] *)
Definition with_total (s : seq) (t : Z) : seq :=
  mkSeq (s_notes s) (s_tempos s) (s_tsigs s) (s_ksigs s) (s_texts s) (s_ccs s) (s_bends s) (s_sects s)
        t (s_qsteps s) (s_spq s) (s_sps s) (s_sub s) (s_tpq s) (s_rest s).

Definition merge_all (ss : list seq) : seq := fold_left TimeOps.merge ss TimeOps.empty_seq.
Definition max_total (ss : list seq) : Z := fold_left (fun m s => Z.max m (s_total s)) ss 0.

Definition merge_sequences (ss : list seq) : seq :=
  TimeOps.remove_redundant (TimeOps.clear_sub (with_total (merge_all ss) (max_total ss))).

(** The code before the repair `fix: merge_sequences sets total_time to the longest input`
    (/repo 0c555ce): total_time is whatever MergeFrom left, i.e. the last non-default
    total_time.  Kept for the recorded refutation only. *)
Definition merge_sequences_orig (ss : list seq) : seq :=
  TimeOps.remove_redundant (TimeOps.clear_sub (merge_all ss)).

(** * expand_section_groups *)

Inductive eerr : Type :=
| XValue      (* ValueError (from extract_subsequence or concatenate_sequences) *)
| XQuant      (* QuantizationStatusError *)
| XKey        (* KeyError: a section group names a section id with no annotation *)
| XOther.     (* any other exception class of the composed models (none is reachable) *)

Inductive eres (A : Type) : Type :=
| EOk (a : A)
| EErr (e : eerr).
Arguments EOk {A} a.
Arguments EErr {A} e.

Definition of_xerr (e : Extract.xerr) : eerr :=
  match e with
  | Extract.ErrQuantized => XQuant
  | Extract.ErrTooFew | Extract.ErrUnsorted | Extract.ErrPastEnd => XValue
  | Extract.ErrZeroHop => XOther
  end.

Definition of_terr (e : TimeOps.terr) : eerr :=
  match e with
  | TimeOps.EValue => XValue
  | TimeOps.EQuant => XQuant
  | _ => XOther
  end.

Definition with_sects (s : seq) (l : list sect) : seq :=
  mkSeq (s_notes s) (s_tempos s) (s_tsigs s) (s_ksigs s) (s_texts s) (s_ccs s) (s_bends s) l
        (s_total s) (s_qsteps s) (s_spq s) (s_sps s) (s_sub s) (s_tpq s) (s_rest s).

(** The loop over [sequence.section_annotations] (storage order): section i runs from its
    own time to the time of the next stored annotation (or total_time for the last one);
    [extract_subsequence] may raise; the piece keeps one section annotation at time 0.
    Result: (section_id, piece, end - start) in storage order. *)
Fixpoint section_pieces (s : seq) (sects : list sect) : eres (list (Z * (seq * Z))) :=
  match sects with
  | [] => EOk []
  | a :: r =>
      let e := match r with b :: _ => sa_time b | [] => s_total s end in
      match Extract.extract_subsequence DEFAULT_PRESERVE s (sa_time a) e with
      | Extract.Err x => EErr (of_xerr x)
      | Extract.Ok p =>
          match section_pieces s r with
          | EErr x => EErr x
          | EOk l => EOk ((sa_id a, (with_sects p [mkSect 0 (sa_id a)], e - sa_time a)) :: l)
          end
      end
  end.

(** [sections[id]] of a dict filled in storage order: the LAST entry with that id. *)
Fixpoint lookup_last {A : Type} (id : Z) (l : list (Z * A)) : option A :=
  match l with
  | [] => None
  | (k, v) :: r =>
      match lookup_last id r with
      | Some x => Some x
      | None => if k =? id then Some v else None
      end
  end.

Fixpoint lookup_all {A : Type} (tbl : list (Z * A)) (ids : list Z) : option (list A) :=
  match ids with
  | [] => Some []
  | i :: r =>
      match lookup_last i tbl, lookup_all tbl r with
      | Some v, Some l => Some (v :: l)
      | _, _ => None
      end
  end.

(** [has_groups]: [sequence.section_groups] is non-empty; [ids]: the flattened
    [sections_to_concat] (the recursion over nested groups and [* num_times] is list
    arithmetic done by the caller; the section groups themselves live in the opaque
    remainder of the record). *)
Definition expand_section_groups (s : seq) (has_groups : bool) (ids : list Z) : eres seq :=
  if negb has_groups then EOk s                         (* copy.deepcopy(sequence) *)
  else
    match section_pieces s (s_sects s) with
    | EErr e => EErr e
    | EOk tbl =>
        match lookup_all tbl ids with
        | None => EErr XKey
        | Some l =>
            match TimeOps.concatenate (map fst l) (map snd l) with
            | TimeOps.Err e => EErr (of_terr e)
            | TimeOps.Ok r => EOk r
            end
        end
    end.
