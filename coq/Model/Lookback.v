(** Model/Lookback.v — encoder_decoder.LookbackEventSequenceEncoderDecoder (C08),
    generic over the event type and the OneHotEncoding it wraps.

    Followed pass by pass:
      events_to_input      — [0.0]*input_size, then four in-place passes (current
                             event, next event per lookback, binary counter,
                             repeat flags) and [assert offset == input_size];
      events_to_label      — the initial-default rule, then the lookbacks in
                             REVERSED list order (last-listed first), then the
                             plain one-hot class;
      class_index_to_event — the same reversed scan, [default_event] when the
                             history is shorter than the distance, else
                             [events[-distance]];
      labels_to_num_steps  — the generation loop, then the sum of
                             [event_to_num_steps].
    Lookback distances are arbitrary integers here (0 and negatives behave as
    Python makes them behave: [events[-0]] is [events[0]]); the theorems ask for
    positive ones. *)
From Coq Require Import ZArith List Bool.
From NS Require Import Model.EncDec.
Import ListNotations.
Local Open Scope Z_scope.

Section Lookback.
  Variable E : Type.
  Variable eqb : E -> E -> bool.       (* Python == on events *)
  Variable n : Z.                      (* one_hot_encoding.num_classes *)
  Variable enc : E -> option Z.        (* encode_event (None = raises) *)
  Variable dec : Z -> option E.        (* decode_event *)
  Variable dflt : E.                   (* default_event *)
  Variable steps : E -> Z.             (* event_to_num_steps *)
  Variable dists : list Z.             (* lookback_distances *)
  Variable bits : Z.                   (* binary_counter_bits *)

  Definition lb_k : Z := zlen dists.
  Definition lb_input_size : Z := n + lb_k * n + bits + lb_k.
  Definition lb_num_classes : Z := n + lb_k.

  (* default_event_label: encode_event(default_event) *)
  Definition lb_default_label : option Z := enc dflt.

  (* reversed(list(enumerate(self._lookback_distances))) *)
  Definition lb_rev_enum : list (Z * Z) := rev (enumerate dists).

  (** ** events_to_label *)
  (* the reversed scan: Some (Some i) = lookback i matched, Some None = none did *)
  Fixpoint lb_scan (ids : list (Z * Z)) (es : list E) (p : Z) : option (option Z) :=
    match ids with
    | [] => Some None
    | (i, d) :: r =>
        let lp := p - d in
        if lp <? 0 then lb_scan r es p
        else a <- py_nth es p ;; b <- py_nth es lp ;;
             if eqb a b then Some (Some i) else lb_scan r es p
    end.

  (* self._lookback_distances and position < self._lookback_distances[-1]
     and events[position] == default_event *)
  Definition lb_initial_default (es : list E) (p : Z) : option bool :=
    match py_nth dists (-1) with
    | None => Some false
    | Some dl => if p <? dl then a <- py_nth es p ;; Some (eqb a dflt) else Some false
    end.

  Definition lb_label (es : list E) (p : Z) : option Z :=
    ini <- lb_initial_default es p ;;
    if ini then Some (n + lb_k - 1)
    else m <- lb_scan lb_rev_enum es p ;;
         match m with
         | Some i => Some (n + i)
         | None => a <- py_nth es p ;; enc a
         end.

  (** ** class_index_to_event *)
  Fixpoint lb_find (ids : list (Z * Z)) (c : Z) : option Z :=
    match ids with
    | [] => None
    | (i, d) :: r => if c =? n + i then Some d else lb_find r c
    end.

  Definition lb_decode (c : Z) (es : list E) : option E :=
    match lb_find lb_rev_enum c with
    | Some d => if zlen es <? d then Some dflt else py_nth es (- d)
    | None => dec c
    end.

  (** ** events_to_input *)
  (* "Next event if repeating N positions ago" *)
  Fixpoint lb_pass_next (ds : list Z) (es : list E) (p : Z) (st : list Z * Z)
    : option (list Z * Z) :=
    match ds with
    | [] => Some st
    | d :: r =>
        let lp := p - d + 1 in
        ev <- (if lp <? 0 then Some dflt else py_nth es lp) ;;
        c <- enc ev ;;
        v' <- py_set (fst st) (snd st + c) 1 ;;
        lb_pass_next r es p (v', snd st + n)
    end.

  (* "Binary time counter giving the metric location of the *next* event" *)
  Definition counter_bit (m i : Z) : Z := if (m / 2 ^ i) mod 2 =? 0 then -1 else 1.

  Fixpoint lb_pass_counter (is : list Z) (m : Z) (st : list Z * Z) : option (list Z * Z) :=
    match is with
    | [] => Some st
    | i :: r =>
        v' <- py_set (fst st) (snd st) (counter_bit m i) ;;
        lb_pass_counter r m (v', snd st + 1)
    end.

  (* "Last event is repeating N bars ago" *)
  Definition lb_repeats (es : list E) (p d : Z) : option bool :=
    let lp := p - d in
    if lp <? 0 then Some false
    else a <- py_nth es p ;; b <- py_nth es lp ;; Some (eqb a b).

  Fixpoint lb_pass_repeat (ds : list Z) (es : list E) (p : Z) (st : list Z * Z)
    : option (list Z * Z) :=
    match ds with
    | [] => Some st
    | d :: r =>
        hit <- lb_repeats es p d ;;
        v' <- (if hit : bool then py_set (fst st) (snd st) 1 else Some (fst st)) ;;
        lb_pass_repeat r es p (v', snd st + 1)
    end.

  Definition lb_input (es : list E) (p : Z) : option (list Z) :=
    e <- py_nth es p ;;
    c <- enc e ;;
    v0 <- py_set (zeros lb_input_size) c 1 ;;
    s1 <- lb_pass_next dists es p (v0, n) ;;
    s2 <- lb_pass_counter (zrange bits) (p + 1) s1 ;;
    s3 <- lb_pass_repeat dists es p s2 ;;
    if snd s3 =? lb_input_size then Some (fst s3) else None.

  Definition lb : encdec E Z :=
    mkEncDec lb_input_size lb_input lb_label lb_decode (steps_by_generation lb_decode steps).
End Lookback.
