(** Model/AbcUnroll.v — C04: the UNROLLED reading of a tune, on the flattened
    item list: every bar / repeat symbol becomes a plain bar line, and the items
    of a repeated body (from its first note to the closing symbol) are written
    out the notated number of times, each copy followed by a plain bar line.
    Items between a boundary and the first note of the next segment (fields,
    `[K:...]` right after `|:`, decorations) are written once.

    Also the boolean side conditions of the note-level expansion statement and
    an executable comparison of the two readings, evaluated by Run/C04.v on every
    generated tune.  No proofs in this file. *)
From Coq Require Import ZArith QArith List Bool.
From NS Require Import Gen.G04 Model.Abc.
Import ListNotations.
Local Open Scope Z_scope.

Definition is_note (i : item) : bool :=
  match i with ITok (TNote _ _ _ _) => true | _ => false end.
Definition is_field (i : item) : bool :=
  match i with IField _ | ITok (TInline _) => true | _ => false end.
Definition plain_bar : item := ITok (TBar 0 1 0).

(* (backward count, forward count, double bar) of a bar-ish token *)
Definition mark_of (i : item) : option (option Z * option Z * bool) :=
  match i with
  | ITok (TBar lc bl rc) =>
      Some (if 0 <? lc then Some (lc + 1) else None, if 0 <? rc then Some (rc + 1) else None, 2 <=? bl)
  | ITok (TColons n) => Some (Some (n / 2 + 1), Some (n / 2 + 1), false)
  | _ => None
  end.

Fixpoint copies {A} (n : nat) (l : list A) : list A :=
  match n with O => [] | S k => l ++ copies k l end.

Record ust := mkU {
  u_out : list item;       (* written so far, in order *)
  u_body : list item;      (* the current segment from its first note, in order *)
  u_open : option Z;       (* count of the open repeat *)
  u_started : bool;        (* some note so far *)
  u_ok : bool }.           (* side conditions so far *)

Definition u0 : ust := mkU [] [] None false true.

Definition len_pos (l : lenspec) : bool :=
  match ls_num l with Some n => 0 <? n | None => true end.

(* close the current body with play count [c] *)
Definition close_body (u : ust) (c : Z) (fwd : option Z) : ust :=
  let rep := u_body u ++ [plain_bar] in
  mkU (u_out u ++ copies (Z.to_nat c) rep) [] fwd (u_started u)
      (u_ok u && ((c <=? 1) || forallb (fun i => negb (is_field i)) (u_body u))).

Definition ustep (u : ust) (i : item) : ust :=
  match mark_of i with
  | Some (back, fwd, dbl) =>
      let has := match u_body u with [] => false | _ => true end in
      match back, fwd with
      | None, None =>
          if dbl && (match u_open u with None => true | Some _ => false end) && has
          then close_body u 1 None
          else if has then mkU (u_out u) (u_body u ++ [plain_bar]) (u_open u) (u_started u) (u_ok u)
               else mkU (u_out u ++ [plain_bar]) [] (u_open u) (u_started u) (u_ok u)
      | Some b, _ =>
          if has then close_body u b fwd
          else mkU (u_out u ++ [plain_bar]) [] fwd (u_started u) false    (* empty repeat body *)
      | None, Some _ =>
          if has then close_body u 1 fwd
          else mkU (u_out u ++ [plain_bar]) [] fwd (u_started u) (u_ok u)
      end
  | None =>
      match i with
      | ITok (TNote _ _ _ len) =>
          mkU (u_out u) (u_body u ++ [i]) (u_open u) true (u_ok u && len_pos len)
      | _ =>
          match u_body u with
          | [] => mkU (u_out u ++ [i]) [] (u_open u) (u_started u) (u_ok u)
          | _ => mkU (u_out u) (u_body u ++ [i]) (u_open u) (u_started u) (u_ok u)
          end
      end
  end.

Definition urun (is : list item) : ust := fold_left ustep is u0.

Definition unroll_items (is : list item) : list item :=
  let u := urun is in u_out u ++ u_body u.

(* no information field (on its own line or inline) inside a body that is played more
   than once; no empty repeated body; every note of positive notated length *)
Definition no_inline_fields_in_repeats (is : list item) : bool := u_ok (urun is).

(* broken rhythm stands directly between two notes *)
Fixpoint broken_between_notes (prev_note : bool) (is : list item) : bool :=
  match is with
  | [] => true
  | ITok (TBroken _ _) :: r =>
      prev_note && (match r with i :: _ => is_note i | [] => false end) && broken_between_notes false r
  | i :: r => broken_between_notes (is_note i) r
  end.

Definition note_eqb (a b : nnote) : bool :=
  (n_pitch a =? n_pitch b) && qeqb (n_start a) (n_start b) && qeqb (n_end a) (n_end b).

Fixpoint notes_eqb (a b : list nnote) : bool :=
  match a, b with
  | [], [] => true
  | x :: a', y :: b' => note_eqb x y && notes_eqb a' b'
  | _, _ => false
  end.

(* 0 = side conditions not met or a reading does not parse; 1 = the expanded notes equal
   the notes of the unrolled reading; 2 = they differ *)
Definition expansion_check (is : list item) : Z :=
  if no_inline_fields_in_repeats is && broken_between_notes false is then
    match parse_items is with
    | Ok t =>
        match expand t, parse_items (unroll_items is) with
        | Ok (_, ns), Ok t' => if notes_eqb ns (t_notes t') then 1 else 2
        | _, _ => 2
        end
    | Err _ => 0
    end
  else 0.
