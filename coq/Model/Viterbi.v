(** Model/Viterbi.v — the Viterbi recursion shared by
    chord_inference._key_chord_viterbi and melody_inference._melody_viterbi.

    Both functions do, per frame t >= 1 and state j:
        mat[i][j]  = loglik[t-1][i] + trans[i][j]
        bp[t][j]   = argmax_i mat[i][j]                (numpy: FIRST maximal index)
        loglik[t][j] = mat[bp[t][j]][j] + emit[t][j]
    then start from argmax of the last row and follow the back-pointers.
    The additions are performed in exactly this left-nested order, which is
    what [score] below mirrors; optimality is about the score as the code
    itself accumulates it.

    The model is generic in the score type [S] with an order [le] and an
    addition [add]; it is instantiated at [Z] and at [option Z] ([None] = -inf,
    which is what log(0) gives in both inference functions). *)
From Coq Require Import ZArith List Bool Arith.
Import ListNotations.

Section Generic.
  Context {S : Type}.
  Variable le : S -> S -> bool.
  Variable add : S -> S -> S.
  Variable d : S.                       (* default for [nth]; never observable for in-range indices *)

  (** first-index argmax of a non-empty list, with its value *)
  Fixpoint argmax_from (l : list S) (idx : nat) (bi : nat) (bv : S) : nat * S :=
    match l with
    | [] => (bi, bv)
    | x :: r => if le x bv then argmax_from r (Datatypes.S idx) bi bv
                else argmax_from r (Datatypes.S idx) idx x
    end.

  Definition argmax (l : list S) : nat * S :=
    match l with
    | [] => (O, d)
    | x :: r => argmax_from r 1 O x
    end.

  Fixpoint map2 (f : S -> S -> S) (a b : list S) : list S :=
    match a, b with
    | x :: a', y :: b' => f x y :: map2 f a' b'
    | _, _ => []
    end.

  (** [cols]: the transition matrix by columns, [nth i (nth j cols [])] = trans[i][j]. *)
  Definition step (cols : list (list S)) (prev : list S) (emit : list S) : list S * list nat :=
    let best := map (fun col => argmax (map2 add prev col)) cols in
    (map2 add (map snd best) emit, map fst best).

  (** [frames]: emission rows for t = 1, 2, ...; [acc]: back-pointer rows, most recent first *)
  Fixpoint forward (cols : list (list S)) (prev : list S) (frames : list (list S))
           (acc : list (list nat)) : list S * list (list nat) :=
    match frames with
    | [] => (prev, acc)
    | e :: r => let '(v, bp) := step cols prev e in forward cols v r (bp :: acc)
    end.

  (** path, most recent state first *)
  Fixpoint backtrack (j : nat) (bps : list (list nat)) : list nat :=
    match bps with
    | [] => [j]
    | bp :: r => j :: backtrack (nth j bp O) r
    end.

  Definition viterbi_rev (init : list S) (cols : list (list S)) (frames : list (list S)) : list nat :=
    let '(v, bps) := forward cols init frames [] in
    backtrack (fst (argmax v)) bps.

  Definition viterbi (init : list S) (cols : list (list S)) (frames : list (list S)) : list nat :=
    rev (viterbi_rev init cols frames).

  (** The score of a path as the code accumulates it.  [p] is most-recent-first;
      [frames_rev] are the emission rows most-recent-first (same length as [p] minus one). *)
  Definition tr (cols : list (list S)) (i j : nat) : S := nth i (nth j cols []) d.

  Fixpoint score (init : list S) (cols : list (list S)) (frames_rev : list (list S)) (p : list nat) : S :=
    match p, frames_rev with
    | [j], _ => nth j init d
    | j :: ((i :: _) as q), e :: fr => add (add (score init cols fr q) (tr cols i j)) (nth j e d)
    | _, _ => d
    end.
End Generic.

(** * Instance: integers extended with -inf *)
Definition xle (a b : option Z) : bool :=
  match a, b with
  | None, _ => true
  | Some _, None => false
  | Some x, Some y => Z.leb x y
  end.
Definition xadd (a b : option Z) : option Z :=
  match a, b with
  | Some x, Some y => Some (x + y)%Z
  | _, _ => None
  end.

Definition viterbi_x := @viterbi (option Z) xle xadd None.
Definition score_x := @score (option Z) xadd None.

(** * Instance: plain integers *)
Definition viterbi_z := @viterbi Z Z.leb Z.add 0%Z.
Definition score_z := @score Z Z.add 0%Z.

(** melody_inference: the first frame "follows a rest": init = trans[0][:] + emit0 *)
Definition melody_init (cols : list (list (option Z))) (emit0 : list (option Z)) : list (option Z) :=
  map2 xadd (map (fun col => nth O col None) cols) emit0.

(** chord_inference: states are (key, chord) pairs, index = key * num_chords + chord;
    init_i = kc[key][chord] + frame0[chord]   (the code also adds the constant -log 12
    to every entry, which cannot change an argmax except by rounding of exact ties:
    see DESIGN C19); emissions are the chord row tiled 12 times. *)
Fixpoint tile {A} (n : nat) (l : list A) : list A :=
  match n with O => [] | Datatypes.S k => l ++ tile k l end.
Definition chord_init (kc : list (list (option Z))) (frame0 : list (option Z)) : list (option Z) :=
  flat_map (fun row => map2 xadd row frame0) kc.
Definition chord_frames (nkeys : nat) (frames : list (list (option Z))) : list (list (option Z)) :=
  map (tile nkeys) frames.
