(** Model/OneHot.v — the OneHotEncoding classes shipped by note_seq (C09):
    melody_encoder_decoder.MelodyOneHotEncoding,
    performance_encoder_decoder.PerformanceOneHotEncoding,
    performance_lib.velocity_to_bin / velocity_bin_to_velocity,
    drums_encoder_decoder.MultiDrumOneHotEncoding,
    performance_controls.NoteDensityOneHotEncoding.
    (The two chord encodings live in Model/ChordOneHot.v on top of the chord
    symbol model.)  [None] models the documented ValueError / error exit. *)
From Coq Require Import ZArith List Bool.
From NS Require Import Gen.G09.
Import ListNotations.
Local Open Scope Z_scope.

(** * Melody *)
Definition mel_cfg_ok (mn mx : Z) : bool :=
  (MIN_MIDI_PITCH <=? mn) && (mx <=? MAX_MIDI_PITCH + 1) && (mn <? mx).

Definition mel_num_classes (mn mx : Z) : Z := mx - mn + NUM_SPECIAL_MELODY_EVENTS.

Definition mel_encode (mn mx e : Z) : option Z :=
  if e <? - NUM_SPECIAL_MELODY_EVENTS then None
  else if (0 <=? e) && (e <? mn) then None
  else if mx <=? e then None
  else if e <? 0 then Some (e + NUM_SPECIAL_MELODY_EVENTS)
  else Some (e - mn + NUM_SPECIAL_MELODY_EVENTS).

Definition mel_decode (mn i : Z) : Z :=
  if i <? NUM_SPECIAL_MELODY_EVENTS then i - NUM_SPECIAL_MELODY_EVENTS
  else i - NUM_SPECIAL_MELODY_EVENTS + mn.

(** * Generic "event ranges" one-hot (PerformanceOneHotEncoding) *)
Definition range : Type := (Z * Z * Z)%type.   (* event type, min value, max value *)

Fixpoint oh_num_classes (rs : list range) : Z :=
  match rs with
  | [] => 0
  | (_, mn, mx) :: r => (mx - mn + 1) + oh_num_classes r
  end.

Fixpoint oh_encode (rs : list range) (off ty v : Z) : option Z :=
  match rs with
  | [] => None                                   (* ValueError: unknown event type *)
  | (t, mn, mx) :: r =>
      if t =? ty then Some (off + v - mn)
      else oh_encode r (off + (mx - mn + 1)) ty v
  end.

Fixpoint oh_decode (rs : list range) (off i : Z) : option (Z * Z) :=
  match rs with
  | [] => None                                   (* ValueError: unknown event index *)
  | (t, mn, mx) :: r =>
      if (off <=? i) && (i <=? off + mx - mn) then Some (t, mn + i - off)
      else oh_decode r (off + (mx - mn + 1)) i
  end.

Definition perf_ranges (nb ms minp maxp : Z) : list range :=
  [(EV_NOTE_ON, minp, maxp); (EV_NOTE_OFF, minp, maxp); (EV_TIME_SHIFT, 1, ms)]
  ++ (if 0 <? nb then [(EV_VELOCITY, 1, nb)] else []).

(** * Velocity bins *)
Definition vel_range : Z := MAX_MIDI_VELOCITY - MIN_MIDI_VELOCITY + 1.
(* int(math.ceil(vel_range / nb)) — integer ceiling; tied to the float code for every nb *)
Definition bin_size (nb : Z) : Z := (vel_range + nb - 1) / nb.
Definition vel_to_bin (v nb : Z) : Z := (v - MIN_MIDI_VELOCITY) / bin_size nb + 1.
Definition bin_to_vel (b nb : Z) : Z := MIN_MIDI_VELOCITY + (b - 1) * bin_size nb.

(** * Multi-drum *)
(* dict((pitch, index) for index, pitches in ... for pitch in pitches): the LAST
   type listing a pitch wins. *)
Fixpoint drum_lookup (types : list (list Z)) (idx : nat) (p : Z) : option nat :=
  match types with
  | [] => None
  | ps :: r =>
      match drum_lookup r (S idx) p with
      | Some j => Some j
      | None => if existsb (Z.eqb p) ps then Some idx else None
      end
  end.

Fixpoint range_nat (n : nat) : list nat :=
  match n with O => [] | S k => range_nat k ++ [k] end.

(* None = DrumsEncodingError (only when ignore_unknown is false) *)
Definition drum_encode (types : list (list Z)) (ignore_unknown : bool) (ev : list Z) : option Z :=
  let idxs := map (drum_lookup types 0) ev in
  if negb ignore_unknown && existsb (fun o => match o with None => true | Some _ => false end) idxs
  then None
  else Some (fold_right Z.add 0
               (map (fun i => if existsb (fun o => match o with Some j => Nat.eqb i j | None => false end) idxs
                              then 2 ^ Z.of_nat i else 0)
                    (range_nat (length types)))).

Definition drum_decode (types : list (list Z)) (index : Z) : list Z :=
  flat_map (fun i => if Z.testbit index (Z.of_nat i)
                     then match nth_error types i with
                          | Some (p :: _) => [p]
                          | _ => []
                          end
                     else [])
           (range_nat (length types)).

Definition drum_num_classes (types : list (list Z)) : Z := 2 ^ Z.of_nat (length types).

(** * Note density (boundaries as any ordered values; Z here) *)
Fixpoint dens_encode_from (bs : list Z) (idx : Z) (e : Z) : Z :=
  match bs with
  | [] => idx
  | b :: r => if e <? b then idx else dens_encode_from r (idx + 1) e
  end.
Definition dens_encode (bs : list Z) (e : Z) : Z := dens_encode_from bs 0 e.
Definition dens_decode (bs : list Z) (i : Z) : Z :=
  if i =? 0 then 0 else nth (Z.to_nat (i - 1)) bs 0.
Definition dens_num_classes (bs : list Z) : Z := Z.of_nat (length bs) + 1.
