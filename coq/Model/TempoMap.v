(** Model/TempoMap.v — pretty_midi's tempo map as note_seq/midi_io.py drives it
    (C03), and the IDEALISED pretty_midi + mido channel [pm_roundtrip].

    Units.  All times are integers in units of  u = 1 / (10^6 * resolution)
    seconds.  A tempo is its MIDI value [us] = microseconds per quarter note;
    under that tempo one tick lasts exactly [us] units, so every tick time is an
    integer and the model is exact (the implementation computes the same
    quantities in binary64; the harness compares after rounding to units and
    skips exact half-tick ties, where float rounding decides).

    Tempo map.  pretty_midi keeps [_tick_scales = [(0, s0); (k1, s1); ...]] in
    the order they were appended.  The model keeps the initial tempo [u0]
    separately and the later entries LATEST FIRST: [(k_n,us_n); ...; (k_1,us_1)].

    [tt]  = PrettyMIDI.__tick_to_time[k]  (as filled by _update_tick_to_time, for
            tick lists that are non-decreasing — which the writer loop guarantees
            once tempos are iterated in time order, see Proofs/TempoMap.v)
    [ttt] = PrettyMIDI.time_to_tick(t): inside the table  -> nearest tick, a tie
            goes to the upper tick ([<] is strict in the code); beyond the table
            -> int(round(last + (t - T_last)/final_scale)), Python round =
            half-to-even.

    The channel [pm_roundtrip] is an ASSUMPTION about third-party code
    (PrettyMIDI.write -> mido bytes -> PrettyMIDI(file)), tied to the real thing
    only by the differential run in harness/vt/props/c03.py.  *)
From Coq Require Import ZArith List Bool.
Import ListNotations.
Local Open Scope Z_scope.

(** * tick -> time *)
Fixpoint tt (u0 : Z) (l : list (Z * Z)) (k : Z) : Z :=
  match l with
  | [] => u0 * k
  | (k0, us0) :: older =>
      if k0 <=? k then tt u0 older k0 + us0 * (k - k0) else tt u0 older k
  end.

(** * time -> tick *)
Definition div_near_up (d us : Z) : Z := (2 * d + us) / (2 * us).
Definition is_tie (d us : Z) : bool := (2 * d + us) mod (2 * us) =? 0.
Definition div_near_even (d us : Z) : Z :=
  let q := div_near_up d us in
  if is_tie d us && Z.odd q then q - 1 else q.

(** inside the table: searchsorted(side=left) then the closer of tick-1 / tick *)
Fixpoint ttt_in (u0 : Z) (l : list (Z * Z)) (t : Z) : Z :=
  match l with
  | [] => if 0 <? t then div_near_up t u0 else 0
  | (k0, us0) :: older =>
      let T0 := tt u0 older k0 in
      if T0 <? t then k0 + div_near_up (t - T0) us0 else ttt_in u0 older t
  end.

Definition ttt (u0 : Z) (l : list (Z * Z)) (t : Z) : Z :=
  match l with
  | [] => if 0 <? t then div_near_even t u0 else 0
  | (k0, us0) :: older =>
      let T0 := tt u0 older k0 in
      if T0 <? t then k0 + div_near_even (t - T0) us0 else ttt_in u0 older t
  end.

(** is [t] exactly half-way between two ticks? (the harness skips such cases) *)
Fixpoint tie_at (u0 : Z) (l : list (Z * Z)) (t : Z) : bool :=
  match l with
  | [] => (0 <? t) && is_tie t u0
  | (k0, us0) :: older =>
      let T0 := tt u0 older k0 in
      if T0 <? t then is_tie (t - T0) us0 else tie_at u0 older t
  end.

(** every tempo value of a map *)
Definition all_us (u0 : Z) (l : list (Z * Z)) : list Z := u0 :: map snd l.

(** * The PrettyMIDI object as note_seq fills it *)
Record pnote := mkPnote { pn_vel : Z; pn_pitch : Z; pn_start : Z; pn_end : Z }.
Record pbend := mkPbend { pbd_pitch : Z; pbd_time : Z }.
Record pcc := mkPcc { pc_num : Z; pc_val : Z; pc_time : Z }.
Record pinstr := mkPinstr {
  pi_prog : Z; pi_drum : bool;
  pi_notes : list pnote; pi_bends : list pbend; pi_ccs : list pcc }.
Record ptsig := mkPtsig { pts_num : Z; pts_den : Z; pts_time : Z }.
Record pksig := mkPksig { pks_key : Z; pks_time : Z }.
Record pm := mkPm {
  pm_res : Z;
  pm_u0 : Z; pm_scales : list (Z * Z);          (* _tick_scales, latest first *)
  pm_tsigs : list ptsig; pm_ksigs : list pksig;
  pm_instrs : list pinstr }.

(** * The channel: PrettyMIDI.write ; PrettyMIDI(file) *)

(** [_load_tempo_changes]: start from 120 qpm; a set_tempo at tick 0 REPLACES the
    list; a later one is appended unless its tick scale equals the last one. *)
Definition DEFAULT_US : Z := 500000.

Definition load_tempo_step (acc : Z * list (Z * Z)) (e : Z * Z) : Z * list (Z * Z) :=
  let '(u0, l) := acc in
  let '(k, us) := e in
  if k =? 0 then (us, [])
  else
    let last := match l with [] => u0 | (_, ul) :: _ => ul end in
    if us =? last then (u0, l) else (u0, (k, us) :: l).

Definition load_tempos (events : list (Z * Z)) : Z * list (Z * Z) :=
  fold_left load_tempo_step events (DEFAULT_US, []).

(** The set_tempo events of the file, in file order.  [wr us] is the integer
    pretty_midi writes for a tempo whose exact value is [us] microseconds:
    [int(6e7/(60./(tick_scale*resolution)))].  Idealised: [wr us = us]; the real
    binary64 expression yields [us - 1] for about a fifth of all values (F19),
    so the harness evaluates that expression and passes the table in. *)
Definition tempo_events (wr : Z -> Z) (u0 : Z) (l : list (Z * Z)) : list (Z * Z) :=
  (0, wr u0) :: map (fun e => (fst e, wr (snd e))) (rev l).

(** stable insertion sort of (tick, payload) by tick: the timing track is sorted
    with a comparator that is 0 for two events of the same type on one tick, and
    Python's sort is stable. *)
Section TickSort.
  Context {A : Type}.
  Fixpoint tins (x : Z * A) (l : list (Z * A)) : list (Z * A) :=
    match l with
    | [] => [x]
    | y :: r => if fst x <=? fst y then x :: y :: r else y :: tins x r
    end.
  Definition tsort (l : list (Z * A)) : list (Z * A) := fold_right tins [] l.
End TickSort.

Definition chan_tsigs (wu0 : Z) (wl : list (Z * Z)) (ru0 : Z) (rl : list (Z * Z))
           (l : list ptsig) : list ptsig :=
  let add_default := forallb (fun ts => 0 <? pts_time ts) l in
  let evs := (if add_default then [(0, (4, 4))] else []) ++
             map (fun ts => (ttt wu0 wl (pts_time ts), (pts_num ts, pts_den ts))) l in
  map (fun e => mkPtsig (fst (snd e)) (snd (snd e)) (tt ru0 rl (fst e))) (tsort evs).

Definition chan_ksigs (wu0 : Z) (wl : list (Z * Z)) (ru0 : Z) (rl : list (Z * Z))
           (l : list pksig) : list pksig :=
  let evs := map (fun ks => (ttt wu0 wl (pks_time ks), pks_key ks)) l in
  map (fun e => mkPksig (snd e) (tt ru0 rl (fst e))) (tsort evs).

(** one track per instrument; the loader creates an Instrument only when a note
    is closed on the track, so an instrument without notes disappears together
    with its control changes and bends. *)
Definition chan_instr (snap : Z -> Z) (i : pinstr) : pinstr :=
  mkPinstr (pi_prog i) (pi_drum i)
    (map (fun n => mkPnote (pn_vel n) (pn_pitch n) (snap (pn_start n)) (snap (pn_end n))) (pi_notes i))
    (map (fun b => mkPbend (pbd_pitch b) (snap (pbd_time b))) (pi_bends i))
    (map (fun c => mkPcc (pc_num c) (pc_val c) (snap (pc_time c))) (pi_ccs i)).

Definition has_notes (i : pinstr) : bool := match pi_notes i with [] => false | _ => true end.

Definition pm_roundtrip (wr : Z -> Z) (p : pm) : pm :=
  let wu0 := pm_u0 p in
  let wl := pm_scales p in
  let '(ru0, rl) := load_tempos (tempo_events wr wu0 wl) in
  let snap := fun t => tt ru0 rl (ttt wu0 wl t) in
  mkPm (pm_res p) ru0 rl
       (chan_tsigs wu0 wl ru0 rl (pm_tsigs p))
       (chan_ksigs wu0 wl ru0 rl (pm_ksigs p))
       (filter has_notes (map (chan_instr snap) (pm_instrs p))).

(** Preconditions under which the note part of the channel is the pointwise map
    above (otherwise note-on/note-off pairing in the loader does something
    else): every note spans at least one tick, and two notes of one pitch on one
    instrument do not overlap in ticks. *)
Definition note_ticks_ok (u0 : Z) (l : list (Z * Z)) (n : pnote) : bool :=
  ttt u0 l (pn_start n) <? ttt u0 l (pn_end n).

Fixpoint no_overlap (u0 : Z) (l : list (Z * Z)) (ns : list pnote) : bool :=
  match ns with
  | [] => true
  | n :: r =>
      forallb (fun m => negb (pn_pitch m =? pn_pitch n) ||
                        (ttt u0 l (pn_end m) <=? ttt u0 l (pn_start n)) ||
                        (ttt u0 l (pn_end n) <=? ttt u0 l (pn_start m))) r
      && no_overlap u0 l r
  end.

Definition chan_pre (p : pm) : bool :=
  forallb (fun i => forallb (note_ticks_ok (pm_u0 p) (pm_scales p)) (pi_notes i) &&
                    no_overlap (pm_u0 p) (pm_scales p) (pi_notes i)) (pm_instrs p).
