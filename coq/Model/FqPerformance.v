(** Model/FqPerformance.v — performance_lib: BasePerformance._from_quantized_sequence (shared by
    Performance and MetricPerformance), BasePerformance._to_sequence at step level,
    _program_and_is_drum_from_sequence, NotePerformance._from_quantized_sequence and
    NotePerformance.to_sequence at step level (C07, reused by C06).

    INTERFACE
    - a performance event is a pair [(event_type, event_value)] with the type codes
      [EV_NOTE_ON EV_NOTE_OFF EV_TIME_SHIFT EV_VELOCITY EV_DURATION] from Gen.G07.
    - [pf_params]: start_step, num_velocity_bins, max_shift_steps, instrument ([None] = all).
      MetricPerformance passes [max_shift_steps = steps_per_quarter * max_shift_quarters].
    - [pf_from_quantized p ns : list pevent]        the event list ([max_shift_steps >= 1]).
    - [pf_program_is_drum instr ns : option Z * option bool].
    - [pf_to_step_notes p default_velocity evs : list snote]   notes [_to_sequence] creates, in
      steps: [(pitch, start, end, velocity)], absolute steps (start_step added), creation order.
    - [np_from_quantized p max_duration ns : res (list np_event)], [np_to_step_notes].
      errors: E_SHIFT, E_DURATION, E_VALUE (PerformanceEvent validator: negative shift or
      duration < 1), E_ZERODIV (num_velocity_bins = 0).
    Preconditions not modelled (validators that cannot fire on them): pitches in 0..127,
    velocities in 1..127, 0 <= num_velocity_bins <= 127. *)
From Coq Require Import ZArith List Bool.
From NS Require Import Base.NoteSeq Gen.G07 Model.FqCommon.
Import ListNotations.
Local Open Scope Z_scope.

Definition pevent : Type := (Z * Z)%type.
Definition snote : Type := (Z * Z * Z * Z)%type.        (* pitch, start, end, velocity *)

Record pf_params := mkPfParams {
  fp_start : Z; fp_bins : Z; fp_max_shift : Z; fp_instrument : option Z }.

(** velocity bins (same formulas as C09's model; int(ceil(127/nb)) as integer ceiling) *)
Definition vel_range : Z := MAX_MIDI_VELOCITY - MIN_MIDI_VELOCITY + 1.
Definition bin_size (nb : Z) : Z := (vel_range + nb - 1) / nb.
Definition vel_to_bin (v nb : Z) : Z := (v - MIN_MIDI_VELOCITY) / bin_size nb + 1.
Definition bin_to_vel (b nb : Z) : Z := MIN_MIDI_VELOCITY + (b - 1) * bin_size nb.

Definition pf_keep (start : Z) (instr : option Z) (n : note) : bool :=
  (start <=? n_qstart n) && (match instr with None => true | Some i => n_instr n =? i end).

(** key=lambda note: (note.start_time, note.pitch) *)
Definition pf_le (a b : note) : bool :=
  (n_start a <? n_start b) || ((n_start a =? n_start b) && (n_pitch a <=? n_pitch b)).

Definition pf_sorted_notes (start : Z) (instr : option Z) (ns : list note) : list note :=
  isort pf_le (filter (pf_keep start instr) ns).

(** (step, idx, is_offset) tuples, carrying the note itself instead of looking it up by idx *)
Record tev := mkTev { te_step : Z; te_idx : Z; te_off : bool; te_note : note }.

Fixpoint enum_from {A} (i : Z) (l : list A) : list (Z * A) :=
  match l with [] => [] | x :: r => (i, x) :: enum_from (i + 1) r end.

Definition tev_le (a b : tev) : bool :=
  (te_step a <? te_step b)
  || ((te_step a =? te_step b)
      && ((te_idx a <? te_idx b) || ((te_idx a =? te_idx b) && implb (te_off a) (te_off b)))).

Definition pf_note_events (sorted : list note) : list tev :=
  let e := enum_from 0 sorted in
  isort tev_le (map (fun x => mkTev (n_qstart (snd x)) (fst x) false (snd x)) e
                ++ map (fun x => mkTev (n_qend (snd x)) (fst x) true (snd x)) e).

(** the shift-splitting loop for a distance d > 0: k maximal shifts, k = (d-1) / max, then the rest *)
Definition pf_shifts (ms d : Z) : list pevent :=
  let k := (d - 1) / ms in
  zrepeat (EV_TIME_SHIFT, ms) k ++ [(EV_TIME_SHIFT, d - k * ms)].

(** the main loop; state = (current_step, current_velocity_bin); events are produced in order *)
Fixpoint pf_loop (nb ms : Z) (tes : list tev) (cur vbin : Z) : list pevent :=
  match tes with
  | [] => []
  | t :: r =>
      let sh := if cur <? te_step t then pf_shifts ms (te_step t - cur) else [] in
      let cur' := if cur <? te_step t then te_step t else cur in
      let b := vel_to_bin (n_vel (te_note t)) nb in
      let change := negb (nb =? 0) && negb (te_off t) && negb (b =? vbin) in
      let ve := if change then [(EV_VELOCITY, b)] else [] in
      let vbin' := if change then b else vbin in
      sh ++ ve ++ [((if te_off t then EV_NOTE_OFF else EV_NOTE_ON), n_pitch (te_note t))]
         ++ pf_loop nb ms r cur' vbin'
  end.

Definition pf_from_quantized (p : pf_params) (ns : list note) : list pevent :=
  pf_loop (fp_bins p) (fp_max_shift p)
          (pf_note_events (pf_sorted_notes (fp_start p) (fp_instrument p) ns)) (fp_start p) 0.

(** _program_and_is_drum_from_sequence *)
Fixpoint all_same (l : list Z) : bool :=
  match l with
  | x :: ((y :: _) as r) => (x =? y) && all_same r
  | _ => true
  end.

Definition pf_program_is_drum (instr : option Z) (ns : list note) : option Z * option bool :=
  let l := filter (fun n => match instr with None => true | Some i => n_instr n =? i end) ns in
  if forallb n_drum l then (None, Some true)
  else if forallb (fun n => negb (n_drum n)) l then
    ((match l with
      | n :: _ => if all_same (map n_prog l) then Some (n_prog n) else None
      | [] => None
      end), Some false)
  else (None, None).

(** BasePerformance._to_sequence at step level.  The dict pitch -> FIFO list of open notes is
    one list of open (pitch, start_step, velocity) in NOTE_ON order; a NOTE_OFF takes the first
    open entry with its pitch.  State: (step, velocity, open); step is relative to start_step. *)
Fixpoint take_first (pitch : Z) (op : list (Z * Z * Z)) : option ((Z * Z * Z) * list (Z * Z * Z)) :=
  match op with
  | [] => None
  | ((q, s, v) as x) :: r =>
      if q =? pitch then Some (x, r)
      else match take_first pitch r with
           | Some (y, r') => Some (y, x :: r')
           | None => None
           end
  end.

Fixpoint pf_decode (nb start : Z) (evs : list pevent) (step vel : Z) (op : list (Z * Z * Z))
  : list snote :=
  match evs with
  | [] =>
      (* remaining open notes end at the final step; zero-duration ones are dropped *)
      map (fun x => let '(q, s, v) := x in (q, s + start, step + start, v))
          (filter (fun x => let '(q, s, v) := x in negb (step =? s)) op)
  | (ty, val) :: r =>
      if ty =? EV_NOTE_ON then pf_decode nb start r step vel (op ++ [(val, step, vel)])
      else if ty =? EV_NOTE_OFF then
        match take_first val op with
        | None => pf_decode nb start r step vel op
        | Some ((q, s, v), op') =>
            if step =? s then pf_decode nb start r step vel op'
            else (q, s + start, step + start, v) :: pf_decode nb start r step vel op'
        end
      else if ty =? EV_TIME_SHIFT then pf_decode nb start r (step + val) vel op
      else if ty =? EV_VELOCITY then pf_decode nb start r step (bin_to_vel val nb) op
      else []                                   (* ValueError: not produced by the extractor *)
  end.

Definition pf_to_step_notes (p : pf_params) (default_velocity : Z) (evs : list pevent) : list snote :=
  pf_decode (fp_bins p) (fp_start p) evs 0 default_velocity [].

(** NotePerformance *)
Definition np_event : Type := (Z * Z * Z * Z)%type.       (* shift, pitch, velocity bin, duration *)

Fixpoint np_loop (nb ms md : Z) (ns : list note) (cur : Z) : res (list np_event) :=
  match ns with
  | [] => Ok []
  | n :: r =>
      let sh := n_qstart n - cur in
      if ms <? sh then Err E_SHIFT
      else if sh <? 0 then Err E_VALUE
      else if nb =? 0 then Err E_ZERODIV
      else
        let du := n_qend n - n_qstart n in
        if md <? du then Err E_DURATION
        else if du <? 1 then Err E_VALUE
        else bind (np_loop nb ms md r (n_qstart n))
                  (fun l => Ok ((sh, n_pitch n, vel_to_bin (n_vel n) nb, du) :: l))
  end.

Definition np_from_quantized (p : pf_params) (max_duration : Z) (ns : list note) : res (list np_event) :=
  np_loop (fp_bins p) (fp_max_shift p) max_duration
          (pf_sorted_notes (fp_start p) (fp_instrument p) ns) (fp_start p).

Fixpoint np_decode (nb start : Z) (evs : list np_event) (step : Z) : list snote :=
  match evs with
  | [] => []
  | (sh, q, b, du) :: r =>
      (q, step + sh + start, step + sh + du + start, bin_to_vel b nb) :: np_decode nb start r (step + sh)
  end.

Definition np_to_step_notes (p : pf_params) (evs : list np_event) : list snote :=
  np_decode (fp_bins p) (fp_start p) evs 0.
