(** Model/Split.v — executable model of [split_note_sequence] (hop form and list
    form), [split_note_sequence_on_time_changes] and
    [split_note_sequence_on_silence] (sequences_lib.py:740-915): the choice of
    the valid split times, the trailing piece, and the call of
    [_extract_subsequences] on them.  Times are exact ticks; qpm is in 2^-20 units.
    No proofs in this file. *)
From Coq Require Import ZArith List Bool Sorted.
From NS Require Import Base.Sx Base.NoteSeq Gen.G02 Model.Extract.
Import ListNotations.
Local Open Scope Z_scope.

(** [while note_idx < len(notes_by_start_time) and
          notes_by_start_time[note_idx].start_time < t:
       notes_crossing_split.append(...); note_idx += 1]
    [pending] = notes_by_start_time[note_idx:]; returns (appended, new pending). *)
Fixpoint take_started (t : Z) (pending : list note) : list note * list note :=
  match pending with
  | [] => ([], [])
  | n :: r =>
      if n_start n <? t then let p := take_started t r in (n :: fst p, snd p)
      else ([], pending)
  end.

Definition nonempty {A} (l : list A) : bool := match l with [] => false | _ => true end.

(** [notes_crossing_split = [n for n in notes_crossing_split if n.end_time > t]] *)
Definition still_sounding (t : Z) (l : list note) : list note :=
  filter (fun n => n_end n >? t) l.

(** loop over the candidate split times of [split_note_sequence] (lines 777-788);
    returns what is appended to [valid_split_times] *)
Fixpoint split_walk (skip : bool) (pending crossing : list note) (sts : list Z) : list Z :=
  match sts with
  | [] => []
  | t :: r =>
      let p := take_started t pending in
      let crossing' := still_sounding t (crossing ++ fst p) in
      (if skip && nonempty crossing' then [] else [t])
      ++ split_walk skip (snd p) crossing' r
  end.

(** [if total_time > valid_split_times[-1]: valid_split_times.append(total_time)] *)
Definition finish (total : Z) (valid : list Z) : list Z :=
  if total >? last valid 0 then valid ++ [total] else valid.

(** [if len(valid) > 1: return _extract_subsequences(ns, valid) else: return []] *)
Definition extract_valid (s : seq) (valid : list Z) : res (list seq) :=
  if (1 <? length valid)%nat then extract_subsequences DEFAULT_PRESERVE s valid else Ok [].

Definition hop_valid (s : seq) (sts : list Z) (skip : bool) : list Z :=
  finish (s_total s) (0 :: split_walk skip (sort_by n_start (s_notes s)) [] sts).

Definition split_at (s : seq) (sts : list Z) (skip : bool) : res (list seq) :=
  extract_valid s (hop_valid s sts skip).

(** list form: [split_times = sorted(hop_size_seconds)] *)
Definition split_list (s : seq) (l : list Z) (skip : bool) : res (list seq) :=
  split_at s (sort_by (fun t => t) l) skip.

(** scalar form: [np.arange(hop, total_time, hop)] = the multiples k*hop, k >= 1,
    below total_time (empty for hop < 0; ZeroDivisionError for hop = 0) *)
Definition arange (hop total : Z) : list Z :=
  if hop <=? 0 then []
  else map (fun i => Z.of_nat i * hop) (List.seq 1 (Z.to_nat ((total - 1) / hop))).

Definition split_hop (s : seq) (hop : Z) (skip : bool) : res (list seq) :=
  if hop =? 0 then Err ErrZeroHop else split_at s (arange hop (s_total s)) skip.

(** * Time changes (lines 804-880) *)
Inductive tchange := TcSig (t : tsig) | TcTempo (t : tempo).
Definition tc_time (c : tchange) : Z :=
  match c with TcSig t => ts_time t | TcTempo t => tp_time t end.

Record tcstate := mkTc { c_num : Z; c_den : Z; c_qpm : Z }.
Definition tc_init : tcstate := mkTc 4 4 DEFAULT_QPM.

(** "didn't actually change" *)
Definition tc_same (st : tcstate) (c : tchange) : bool :=
  match c with
  | TcSig t => (ts_num t =? c_num st) && (ts_den t =? c_den st)
  | TcTempo t => tp_qpm t =? c_qpm st
  end.
Definition tc_update (st : tcstate) (c : tchange) : tcstate :=
  match c with
  | TcSig t => mkTc (ts_num t) (ts_den t) (c_qpm st)
  | TcTempo t => mkTc (c_num st) (c_den st) (tp_qpm t)
  end.

Fixpoint tc_walk (skip : bool) (st : tcstate) (pending crossing : list note) (lastv : Z)
         (evs : list tchange) : list Z :=
  match evs with
  | [] => []
  | c :: r =>
      if tc_same st c then tc_walk skip st pending crossing lastv r       (* continue *)
      else
        let t := tc_time c in
        let p := take_started t pending in
        let crossing' := still_sounding t (crossing ++ fst p) in
        let add := (t >? lastv) && negb (skip && nonempty crossing') in
        (if add then [t] else [])
        ++ tc_walk skip (tc_update st c) (snd p) crossing' (if add then t else lastv) r
  end.

(** [sorted(list(time_signatures) + list(tempos), key=time)] then [t.time < total_time] *)
Definition tc_events (s : seq) : list tchange :=
  filter (fun c => tc_time c <? s_total s)
         (sort_by tc_time (map TcSig (s_tsigs s) ++ map TcTempo (s_tempos s))).

Definition tc_valid (s : seq) (skip : bool) : list Z :=
  finish (s_total s)
         (0 :: tc_walk skip tc_init (sort_by n_start (s_notes s)) [] 0 (tc_events s)).

Definition split_time_changes (s : seq) (skip : bool) : res (list seq) :=
  extract_valid s (tc_valid s skip).

(** * Silence (lines 883-915) *)
Fixpoint silence_walk (gap la : Z) (l : list note) : list Z :=
  match l with
  | [] => []
  | n :: r =>
      (if n_start n >? la + gap then [n_start n] else [])
      ++ silence_walk gap (Z.max la (n_end n)) r
  end.

Definition silence_valid (s : seq) (gap : Z) : list Z :=
  finish (s_total s) (0 :: silence_walk gap 0 (sort_by n_start (s_notes s))).

Definition split_silence (s : seq) (gap : Z) : res (list seq) :=
  extract_valid s (silence_valid s gap).

(** * Declarative vocabulary used by the theorems (not by the models above) *)

(** a note is sounding strictly across instant [t] *)
Definition sounding_at (t : Z) (n : note) : bool := (n_start n <? t) && (t <? n_end n).

(** a split at [t] is allowed: not requested to skip, or no note sounds across [t] *)
Definition split_allowed (skip : bool) (notes : list note) (t : Z) : bool :=
  negb (skip && existsb (sounding_at t) notes).

(** the events that really change the time signature or tempo in force
    (fold semantics: each event is compared with the value set by the events before it) *)
Fixpoint genuine (st : tcstate) (evs : list tchange) : list tchange :=
  match evs with
  | [] => []
  | c :: r => if tc_same st c then genuine st r else c :: genuine (tc_update st c) r
  end.

(** the latest note end seen so far (never below [la]) *)
Definition active (la : Z) (pre : list note) : Z :=
  fold_left (fun a n => Z.max a (n_end n)) pre la.

Definition strictly_inc (l : list Z) : Prop := Sorted.StronglySorted Z.lt l.
