(** Model/Sustain.v — executable model of
    note_seq.sequences_lib.apply_sustain_control_changes (C14).

    Times are exact ticks.  The function is followed pass by pass:

      1. reject quantized input;
      2. build the event list: NOTE_ON of every non-drum note (storage order),
         NOTE_OFF of every non-drum note (storage order), then one SUSTAIN_ON /
         SUSTAIN_OFF per control change with the sustain control number
         (value >= 64 / value < 64), in storage order;
      3. stable sort by (time, event-type constant) — constants from Gen/G14.v;
      4. the four-way state machine;
      5. the closing loop over everything still in an active list.

    Python object identity.  The code mutates the Note messages of the copy in
    place, keeps references to them in per-instrument lists, tests membership
    with [in] / [list.remove] (protobuf VALUE equality, evaluated on the
    current field values) and deletes from [sequence.notes] with
    [RepeatedCompositeContainer.remove] (first element EQUAL BY VALUE, which
    need not be the same object).  The model therefore keeps the notes in an
    array of cells [(value, alive)] addressed by storage index; events and
    active lists hold indices; "alive" = still a member of [sequence.notes].
    A detached (dead) note can still be referenced and mutated, exactly as the
    Python wrapper of a removed message can.

    Representation choice: [collections.defaultdict(list)] keyed by instrument
    is one global list of indices in insertion order; the list of instrument I
    is the sub-list of indices whose cell has instrument I (the instrument of a
    note never changes, appends go to the end, and every loop over one
    instrument's list skips the other entries unchanged).  [sus_active] is the
    list of instruments whose pedal is down.

    The closing loop follows the code AS REPAIRED by notes/C14-fix-1.diff
    ([total_time] only grows); [close_orig] is the loop as it was before the
    repair ([sequence.total_time = time] unconditionally), kept for the
    refutation witness. *)
From Coq Require Import ZArith List Bool.
From NS Require Import Base.NoteSeq Gen.G14.
Import ListNotations.
Local Open Scope Z_scope.

(** * Notes as mutable cells *)
Record cell := mkCell { c_n : note; c_alive : bool }.

Definition dummy_note : note := mkNote 0 0 0 0 0 0 false 0 0 0.
Definition dummy_cell : cell := mkCell dummy_note false.

Definition cell_at (cs : list cell) (i : nat) : note := c_n (nth i cs dummy_cell).

Fixpoint upd (cs : list cell) (i : nat) (f : cell -> cell) : list cell :=
  match cs, i with
  | [], _ => []
  | c :: r, O => f c :: r
  | c :: r, S k => c :: upd r k f
  end.

Definition set_end (n : note) (e : Z) : note := note_with_times n (n_start n) e.
Definition set_end_at (cs : list cell) (i : nat) (t : Z) : list cell :=
  upd cs i (fun c => mkCell (set_end (c_n c) t) (c_alive c)).

(** protobuf [==] on Note messages: every field. *)
Definition note_eqb (a b : note) : bool :=
  (n_pitch a =? n_pitch b) && (n_vel a =? n_vel b) && (n_start a =? n_start b) &&
  (n_end a =? n_end b) && (n_instr a =? n_instr b) && (n_prog a =? n_prog b) &&
  Bool.eqb (n_drum a) (n_drum b) && (n_qstart a =? n_qstart b) && (n_qend a =? n_qend b) &&
  (n_rest a =? n_rest b).

(** [sequence.notes.remove(v)]: delete the first member equal by value.
    (Not found would be a Python ValueError; the correspondence run has never
    produced one — see notes/C14.md — and the model leaves the list alone.) *)
Fixpoint kill_first (v : note) (cs : list cell) : list cell :=
  match cs with
  | [] => []
  | c :: r => if c_alive c && note_eqb (c_n c) v then mkCell (c_n c) false :: r
              else c :: kill_first v r
  end.

(** * Events *)
Inductive kind := KSusOn | KSusOff | KNoteOn | KNoteOff.
Definition kind_code (k : kind) : Z :=
  match k with KSusOn => SUSTAIN_ON | KSusOff => SUSTAIN_OFF | KNoteOn => NOTE_ON | KNoteOff => NOTE_OFF end.

(** [e_ref]: storage index of the note (note events) — unused for pedal events;
    [e_instr]: [event.instrument] (of the note or of the control change). *)
Record event := mkEv { e_time : Z; e_kind : kind; e_ref : nat; e_instr : Z }.

(** Strict order on the sort key (time, type). *)
Definition ev_lt (a b : event) : bool :=
  (e_time a <? e_time b) || ((e_time a =? e_time b) && (kind_code (e_kind a) <? kind_code (e_kind b))).

(** Stable sort (list.sort with a key): [ins x l] puts [x] in front of the
    first element that is not strictly smaller, so elements with equal keys
    keep their original order. *)
Fixpoint ins (x : event) (l : list event) : list event :=
  match l with
  | [] => [x]
  | y :: r => if ev_lt y x then y :: ins x r else x :: y :: r
  end.
Definition sort_events (l : list event) : list event := fold_right ins [] l.

Definition indexed {A} (l : list A) : list (nat * A) := combine (List.seq 0%nat (length l)) l.

Definition note_events (k : kind) (tm : note -> Z) (ns : list note) : list event :=
  map (fun p => mkEv (tm (snd p)) k (fst p) (n_instr (snd p)))
      (filter (fun p => negb (n_drum (snd p))) (indexed ns)).

Definition cc_events (ctl : Z) (ccs : list cc) : list event :=
  map (fun c => mkEv (cc_time c) (if 64 <=? cc_val c then KSusOn else KSusOff) O (cc_instr c))
      (filter (fun c => cc_num c =? ctl) ccs).

Definition build_events (ctl : Z) (ns : list note) (ccs : list cc) : list event :=
  note_events KNoteOn n_start ns ++ note_events KNoteOff n_end ns ++ cc_events ctl ccs.

(** * State machine *)
Record st := mkSt { cells : list cell; active : list nat; sus : list Z; total : Z }.

Definition is_sus (i : Z) (l : list Z) : bool := existsb (Z.eqb i) l.
Definition sus_off (i : Z) (l : list Z) : list Z := filter (fun j => negb (j =? i)) l.

(** SUSTAIN_OFF on instrument [i] at time [t]: loop over [active_notes[i]]. *)
Fixpoint off_loop (i t : Z) (act : list nat) (cs : list cell) (tot : Z) : list nat * list cell * Z :=
  match act with
  | [] => ([], cs, tot)
  | a :: r =>
      let n := cell_at cs a in
      if n_instr n =? i then
        if n_end n <? t then
          off_loop i t r (set_end_at cs a t) (if tot <? t then t else tot)
        else
          let '(keep, cs', tot') := off_loop i t r cs tot in (a :: keep, cs', tot')
      else
        let '(keep, cs', tot') := off_loop i t r cs tot in (a :: keep, cs', tot')
  end.

(** NOTE_ON of pitch [p] on instrument [i] at time [t] while the pedal is down. *)
Fixpoint on_loop (i p t : Z) (act : list nat) (cs : list cell) : list nat * list cell :=
  match act with
  | [] => ([], cs)
  | a :: r =>
      let n := cell_at cs a in
      if n_instr n =? i then
        if n_pitch n =? p then
          let cs1 := set_end_at cs a t in
          let cs2 := if n_start n =? t then kill_first (cell_at cs1 a) cs1 else cs1 in
          on_loop i p t r cs2
        else
          let '(keep, cs') := on_loop i p t r cs in (a :: keep, cs')
      else
        let '(keep, cs') := on_loop i p t r cs in (a :: keep, cs')
  end.

(** [if event in lst: lst.remove(event)] — first index whose cell equals [v]. *)
Fixpoint remove_first_eq (cs : list cell) (v : note) (act : list nat) : list nat :=
  match act with
  | [] => []
  | a :: r => if note_eqb (cell_at cs a) v then r else a :: remove_first_eq cs v r
  end.

Definition step (s : st) (e : event) : st :=
  let i := e_instr e in
  let t := e_time e in
  match e_kind e with
  | KSusOn => mkSt (cells s) (active s) (i :: sus s) (total s)
  | KSusOff =>
      let '(act, cs, tot) := off_loop i t (active s) (cells s) (total s) in
      mkSt cs act (sus_off i (sus s)) tot
  | KNoteOn =>
      if is_sus i (sus s) then
        let '(act, cs) := on_loop i (n_pitch (cell_at (cells s) (e_ref e))) t (active s) (cells s) in
        mkSt cs (act ++ [e_ref e]) (sus s) (total s)
      else mkSt (cells s) (active s ++ [e_ref e]) (sus s) (total s)
  | KNoteOff =>
      if is_sus i (sus s) then s
      else mkSt (cells s) (remove_first_eq (cells s) (cell_at (cells s) (e_ref e)) (active s)) (sus s) (total s)
  end.

Definition run_events (evs : list event) (s : st) : st := fold_left step evs s.

(** Closing loop, repaired: [note.end_time = time; total_time = max(total_time, time)]. *)
Fixpoint close (t : Z) (act : list nat) (cs : list cell) (tot : Z) : list cell * Z :=
  match act with
  | [] => (cs, tot)
  | a :: r => close t r (set_end_at cs a t) (if tot <? t then t else tot)
  end.

(** Closing loop before the repair: [note.end_time = time; total_time = time]. *)
Fixpoint close_orig (t : Z) (act : list nat) (cs : list cell) (tot : Z) : list cell * Z :=
  match act with
  | [] => (cs, tot)
  | a :: r => close_orig t r (set_end_at cs a t) t
  end.

(** [time] after the loop: the time of the last event, 0 if there is none. *)
Definition last_time (evs : list event) : Z := last (map e_time evs) 0.

Definition init_cells (ns : list note) : list cell := map (fun n => mkCell n true) ns.
Definition live_notes (cs : list cell) : list note := map c_n (filter c_alive cs).

Definition init_st (ns : list note) (tot : Z) : st := mkSt (init_cells ns) [] [] tot.

(** The state just before the closing loop, and the value of [time]. *)
Definition sorted_events (ctl : Z) (ns : list note) (ccs : list cc) : list event :=
  sort_events (build_events ctl ns ccs).
Definition pre_close (ctl : Z) (ns : list note) (ccs : list cc) (tot : Z) : st :=
  run_events (sorted_events ctl ns ccs) (init_st ns tot).

(** Result on (notes, control changes, total_time): final cells and total_time. *)
Definition sustain_cells_gen (closef : Z -> list nat -> list cell -> Z -> list cell * Z)
           (ctl : Z) (ns : list note) (ccs : list cc) (tot : Z) : list cell * Z :=
  let s := pre_close ctl ns ccs tot in
  closef (last_time (sorted_events ctl ns ccs)) (active s) (cells s) (total s).

Definition sustain_cells := sustain_cells_gen close.
Definition sustain_cells_orig := sustain_cells_gen close_orig.

Definition is_quantized (s : seq) : bool := (0 <? s_spq s) || (0 <? s_sps s).

Definition with_notes_total (s : seq) (ns : list note) (tot : Z) : seq :=
  mkSeq ns (s_tempos s) (s_tsigs s) (s_ksigs s) (s_texts s) (s_ccs s) (s_bends s) (s_sects s)
        tot (s_qsteps s) (s_spq s) (s_sps s) (s_sub s) (s_tpq s) (s_rest s).

(** [None] = QuantizationStatusError. *)
Definition apply_sustain_gen closef (ctl : Z) (s : seq) : option seq :=
  if is_quantized s then None
  else let '(cs, tot) := sustain_cells_gen closef ctl (s_notes s) (s_ccs s) (s_total s) in
       Some (with_notes_total s (live_notes cs) tot).

Definition apply_sustain := apply_sustain_gen close.
Definition apply_sustain_orig := apply_sustain_gen close_orig.

(** * Declarative specification (what C14 says the result is)

    For a non-drum note [n] of instrument [i]:
      down  = pedal state of [i] after every pedal event with time <= end n
              (at equal times ON is applied before OFF);
      if not down, the end is unchanged; otherwise the new end is the minimum of
        R = the first pedal-OFF time of [i] strictly after end n,
        S = the first start >= end n of ANOTHER note of the same pitch on [i],
      and the time of the last event of the piece if neither exists. *)
Definition pedal_events (ctl : Z) (i : Z) (ccs : list cc) : list cc :=
  filter (fun c => (cc_num c =? ctl) && (cc_instr c =? i)) ccs.

Definition is_on (c : cc) : bool := 64 <=? cc_val c.

(** Pedal state after all pedal events of the instrument with time <= t:
    the latest such event decides; among events at the latest time an OFF wins
    (OFF is processed after ON).  No event: up. *)
Definition latest_time (t : Z) (pe : list cc) : option Z :=
  fold_left (fun acc c => if cc_time c <=? t then
                            match acc with None => Some (cc_time c)
                                      | Some m => Some (Z.max m (cc_time c)) end
                          else acc) pe None.

Definition pedal_down (t : Z) (pe : list cc) : bool :=
  match latest_time t pe with
  | None => false
  | Some m => negb (existsb (fun c => (cc_time c =? m) && negb (is_on c)) pe)
  end.

Definition min_opt (a : option Z) (b : Z) : option Z :=
  match a with None => Some b | Some x => Some (Z.min x b) end.

Definition first_release (t : Z) (pe : list cc) : option Z :=
  fold_left (fun acc c => if negb (is_on c) && (t <? cc_time c) then min_opt acc (cc_time c) else acc) pe None.

Definition first_restrike (k : nat) (n : note) (ns : list note) : option Z :=
  fold_left (fun acc p =>
               let m := snd p in
               if negb (Nat.eqb (fst p) k) && negb (n_drum m) && (n_instr m =? n_instr n) &&
                  (n_pitch m =? n_pitch n) && (n_end n <=? n_start m)
               then min_opt acc (n_start m) else acc) (indexed ns) None.

Definition opt_min (a b : option Z) : option Z :=
  match a, b with
  | None, x => x
  | x, None => x
  | Some x, Some y => Some (Z.min x y)
  end.

(** Time of the last event = the largest event time (0 when there is none). *)
Definition max_event_time (ctl : Z) (ns : list note) (ccs : list cc) : Z :=
  match map e_time (build_events ctl ns ccs) with
  | [] => 0
  | t :: r => fold_left Z.max r t
  end.

Definition spec_end (ctl : Z) (ns : list note) (ccs : list cc) (k : nat) (n : note) : Z :=
  if n_drum n then n_end n
  else
    let pe := pedal_events ctl (n_instr n) ccs in
    if pedal_down (n_end n) pe then
      match opt_min (first_release (n_end n) pe) (first_restrike k n ns) with
      | Some t => t
      | None => max_event_time ctl ns ccs
      end
    else n_end n.

Definition spec_notes (ctl : Z) (ns : list note) (ccs : list cc) : list note :=
  map (fun p => set_end (snd p) (spec_end ctl ns ccs (fst p) (snd p))) (indexed ns).

(** The hypothesis of the specification theorem, as checkable predicates:
    non-drum notes have start <= end, and no two non-drum notes of one pitch on
    one instrument overlap or start together. *)
Definition clash (a b : note) : bool :=
  negb (n_drum a) && negb (n_drum b) && (n_instr a =? n_instr b) && (n_pitch a =? n_pitch b) &&
  (((n_start a <? n_end b) && (n_start b <? n_end a)) || (n_start a =? n_start b)).

Fixpoint no_clash (ns : list note) : bool :=
  match ns with
  | [] => true
  | n :: r => forallb (fun m => negb (clash n m)) r && no_clash r
  end.

Definition ordered_b (ns : list note) : bool :=
  forallb (fun n => n_drum n || (n_start n <=? n_end n)) ns.

Definition covered_b (tot : Z) (ns : list note) : bool :=
  forallb (fun n => n_end n <=? tot) ns.

Definition no_pedal_down (ctl : Z) (i : Z) (ccs : list cc) : bool :=
  forallb (fun c => negb (is_on c)) (pedal_events ctl i ccs).
