(** Model/Abc.v — token-level model of note_seq/abc_parser.py (ABCTune,
    parse_abc_tunebook) and of the part of sequences_lib.expand_section_groups
    that ABC tunes exercise (C04).

    The regex lexing of the real parser is NOT modelled: the harness renders a
    token list to ABC text and feeds the real [parse_abc_tunebook]; the model
    consumes the token list.  Everything after lexing is followed pass by
    pass, oddities included.  Times are exact rationals ([Q], normalised with
    [Qred]); the implementation computes the same quantities in binary64.

    Python exceptions are explicit: [Err e] with [e : exn]; [foreign e] tells
    the ABCParseError family (collected per tune by parse_abc_tunebook) from
    every other Python exception (which escapes and aborts the tunebook).

    No proofs in this file. *)
From Coq Require Import ZArith QArith List Bool.
From NS Require Import Gen.G04.
Import ListNotations.
Local Open Scope Z_scope.

(** * Exceptions *)
Inductive exn :=
| EParse | EMultiVoice | ERepeat | EVariant | EPart | EInvalidChar | EChord
| EDuplicate | ETuplet                                   (* ABCParseError family *)
| EKeyError | EZeroDiv | EValueError | EIndexError | ETypeError.   (* foreign *)

Definition foreign (e : exn) : bool :=
  match e with
  | EKeyError | EZeroDiv | EValueError | EIndexError | ETypeError => true
  | _ => false
  end.

Inductive res (A : Type) := Ok (a : A) | Err (e : exn).
Arguments Ok {A} a.
Arguments Err {A} e.

Definition bind {A B} (r : res A) (f : A -> res B) : res B :=
  match r with Ok a => f a | Err e => Err e end.
Notation "'do' x <- r ; k" := (bind r (fun x => k))
  (at level 200, x name, r at level 100, k at level 200, right associativity).

(** * Strings (lists of character codes) and association lists *)
Definition lower_c (c : Z) : Z := if (65 <=? c) && (c <=? 90) then c + 32 else c.
Definition upper_c (c : Z) : Z := if (97 <=? c) && (c <=? 122) then c - 32 else c.
Definition lower_s (s : list Z) : list Z := map lower_c s.

Fixpoint str_eqb (a b : list Z) : bool :=
  match a, b with
  | [], [] => true
  | x :: a', y :: b' => (x =? y) && str_eqb a' b'
  | _, _ => false
  end.

Fixpoint assoc_s {A} (k : list Z) (t : list (list Z * A)) : option A :=
  match t with
  | [] => None
  | (k', v) :: r => if str_eqb k k' then Some v else assoc_s k r
  end.

Fixpoint assoc_z {A} (k : Z) (t : list (Z * A)) : option A :=
  match t with
  | [] => None
  | (k', v) :: r => if k =? k' then Some v else assoc_z k r
  end.

(** Python dict str -> int: first match of the most recent binding. *)
Definition amap := list (Z * Z).
Definition aset (k v : Z) (m : amap) : amap := (k, v) :: m.
Definition aget (k : Z) (m : amap) : option Z := assoc_z k m.

(** * Rationals *)
Local Open Scope Q_scope.
Definition qadd (a b : Q) : Q := Qred (a + b).
Definition qsub (a b : Q) : Q := Qred (a - b).
Definition qmul (a b : Q) : Q := Qred (a * b).
Definition qdiv (a b : Q) : Q := Qred (a / b).      (* callers exclude b == 0 *)
Definition qeqb (a b : Q) : bool := Qeq_bool a b.
Definition qltb (a b : Q) : bool := (Qnum a * QDen b <? Qnum b * QDen a)%Z.
Definition qzero (a : Q) : bool := (Qnum a =? 0)%Z.
Definition qz (z : Z) : Q := inject_Z z.
(** Fraction(n, d) for d <> 0 (sign moved to the numerator). *)
Definition qfrac (n d : Z) : Q :=
  match d with
  | Zpos p => Qred (Qmake n p)
  | Zneg p => Qred (Qmake (- n) p)
  | Z0 => 0
  end.
Definition qpow2 (k : Z) : Q := qz (2 ^ k).
Local Close Scope Q_scope.

(** * Tokens *)
Inductive acc := ANone | ASharp | AFlat | ANat | ADSharp | ADFlat.

Inductive meter := MC | MCut | MNone | MFrac (n d : Z) | MBad.
Inductive qfield :=
| QFrac (beats : list (Z * Z)) (rate : Z)    (* Q:1/4=120, Q:1/4 3/8=40 *)
| QBare (rate : Z)                           (* Q:120, Q:C=120 (deprecated) *)
| QString.                                   (* Q:"Allegro" *)

Inductive field :=
| FNop                                        (* any ignored field (T, C, R, N, ...) *)
| FX (n : Z)
| FM (m : meter)
| FL (n d : Z)
| FQ (q : qfield)
| FK (tonic mode : list Z) (exp : bool) (eacc : list (acc * Z))
     (* KEY_PATTERN groups 1+2, group 3; 'exp' present; accidentals after *)
| FKBad                                       (* KEY_PATTERN does not match (K:none, K:HP) *)
| FP | FV.

(* NOTE_PATTERN group 4: digits, slashes, digits *)
Record lenspec := mkLen { ls_num : option Z; ls_slashes : Z; ls_den : option Z }.

Inductive unsup := UChord | UTuplet | UVariant | UInvalid.

Inductive token :=
| TNote (a : acc) (letter : Z) (octs : list bool) (l : lenspec)   (* octs: true = apostrophe, false = comma *)
| TBar (lc blen rc : Z)          (* BAR_AND_REPEAT_SYMBOLS_PATTERN: left colons, number of bar characters, right colons *)
| TColons (n : Z)                (* REPEAT_SYMBOLS_PATTERN: colons with no bar symbol *)
| TBroken (gt : bool) (k : Z)    (* '>'^k or '<'^k *)
| TInline (f : field)
| TNop                           (* annotation, decoration, slur, tie, continuation *)
| TUnsup (u : unsup).

Inductive line := LField (f : field) | LMusic (ts : list token).

(** The parser's control flow over lines, flattened. *)
Inductive item := IField (f : field) | ILine | ITok (t : token).

Definition flatten_line (l : line) : list item :=
  match l with
  | LField f => [IField f]
  | LMusic [] => []                      (* empty after stripping: skipped *)
  | LMusic ts => ILine :: map ITok ts
  end.
Definition flatten (ls : list line) : list item := flat_map flatten_line ls.

(** * Parser state.  All repeated fields are kept most-recent-first. *)
Record nnote := mkN { n_pitch : Z; n_start : Q; n_end : Q }.

Record st := mkSt {
  cur : Q;                         (* _current_time *)
  kacc : amap;                     (* _accidentals *)
  bacc : amap;                     (* _bar_accidentals *)
  unit_len : option Q;             (* _current_unit_note_length *)
  expected : option Z;             (* _current_expected_repeats *)
  in_header : bool;
  htempo_unit : option Q;          (* _header_tempo_unit *)
  htempo_rate : option Z;          (* _header_tempo_rate *)
  notes : list nnote;
  tempos : list (Q * Q);           (* time, qpm *)
  tsigs : list (Q * Z * Z);
  ksigs : list (Q * Z * Z);        (* time, key, mode *)
  sects : list (Q * Z);            (* time, section_id *)
  groups : list (Z * Z);           (* section_id, num_times *)
  refnum : Z;
  broken : option (bool * Z)       (* local variable of _parse_music_code *)
}.

Definition letters : list Z := [65; 66; 67; 68; 69; 70; 71].   (* 'ABCDEFG' *)

Definition sig_to_accidentals (sig : Z) : amap :=
  let base := map (fun c => (c, 0)) letters in
  if 0 <? sig then
    fold_left (fun m c => aset c 1 m) (firstn (Z.to_nat sig) SHARPS_ORDER) base
  else if sig <? 0 then
    fold_left (fun m c => aset c (-1) m) (firstn (Z.to_nat (- sig)) FLATS_ORDER) base
  else base.

Definition st0 : st :=
  mkSt 0%Q (sig_to_accidentals 0) [] None None true None None [] [] [] [] [] [] 0 None.

(* record updates *)
Definition set_cur (s : st) v := mkSt v (kacc s) (bacc s) (unit_len s) (expected s) (in_header s) (htempo_unit s) (htempo_rate s) (notes s) (tempos s) (tsigs s) (ksigs s) (sects s) (groups s) (refnum s) (broken s).
Definition set_kacc (s : st) v := mkSt (cur s) v (bacc s) (unit_len s) (expected s) (in_header s) (htempo_unit s) (htempo_rate s) (notes s) (tempos s) (tsigs s) (ksigs s) (sects s) (groups s) (refnum s) (broken s).
Definition set_bacc (s : st) v := mkSt (cur s) (kacc s) v (unit_len s) (expected s) (in_header s) (htempo_unit s) (htempo_rate s) (notes s) (tempos s) (tsigs s) (ksigs s) (sects s) (groups s) (refnum s) (broken s).
Definition set_unit (s : st) v := mkSt (cur s) (kacc s) (bacc s) v (expected s) (in_header s) (htempo_unit s) (htempo_rate s) (notes s) (tempos s) (tsigs s) (ksigs s) (sects s) (groups s) (refnum s) (broken s).
Definition set_expected (s : st) v := mkSt (cur s) (kacc s) (bacc s) (unit_len s) v (in_header s) (htempo_unit s) (htempo_rate s) (notes s) (tempos s) (tsigs s) (ksigs s) (sects s) (groups s) (refnum s) (broken s).
Definition set_in_header (s : st) v := mkSt (cur s) (kacc s) (bacc s) (unit_len s) (expected s) v (htempo_unit s) (htempo_rate s) (notes s) (tempos s) (tsigs s) (ksigs s) (sects s) (groups s) (refnum s) (broken s).
Definition set_htempo (s : st) u r := mkSt (cur s) (kacc s) (bacc s) (unit_len s) (expected s) (in_header s) u r (notes s) (tempos s) (tsigs s) (ksigs s) (sects s) (groups s) (refnum s) (broken s).
Definition set_notes (s : st) v := mkSt (cur s) (kacc s) (bacc s) (unit_len s) (expected s) (in_header s) (htempo_unit s) (htempo_rate s) v (tempos s) (tsigs s) (ksigs s) (sects s) (groups s) (refnum s) (broken s).
Definition set_tempos (s : st) v := mkSt (cur s) (kacc s) (bacc s) (unit_len s) (expected s) (in_header s) (htempo_unit s) (htempo_rate s) (notes s) v (tsigs s) (ksigs s) (sects s) (groups s) (refnum s) (broken s).
Definition set_tsigs (s : st) v := mkSt (cur s) (kacc s) (bacc s) (unit_len s) (expected s) (in_header s) (htempo_unit s) (htempo_rate s) (notes s) (tempos s) v (ksigs s) (sects s) (groups s) (refnum s) (broken s).
Definition set_ksigs (s : st) v := mkSt (cur s) (kacc s) (bacc s) (unit_len s) (expected s) (in_header s) (htempo_unit s) (htempo_rate s) (notes s) (tempos s) (tsigs s) v (sects s) (groups s) (refnum s) (broken s).
Definition set_sects (s : st) v := mkSt (cur s) (kacc s) (bacc s) (unit_len s) (expected s) (in_header s) (htempo_unit s) (htempo_rate s) (notes s) (tempos s) (tsigs s) (ksigs s) v (groups s) (refnum s) (broken s).
Definition set_groups (s : st) v := mkSt (cur s) (kacc s) (bacc s) (unit_len s) (expected s) (in_header s) (htempo_unit s) (htempo_rate s) (notes s) (tempos s) (tsigs s) (ksigs s) (sects s) v (refnum s) (broken s).
Definition set_refnum (s : st) v := mkSt (cur s) (kacc s) (bacc s) (unit_len s) (expected s) (in_header s) (htempo_unit s) (htempo_rate s) (notes s) (tempos s) (tsigs s) (ksigs s) (sects s) (groups s) v (broken s).
Definition set_broken (s : st) v := mkSt (cur s) (kacc s) (bacc s) (unit_len s) (expected s) (in_header s) (htempo_unit s) (htempo_rate s) (notes s) (tempos s) (tsigs s) (ksigs s) (sects s) (groups s) (refnum s) v.

(** * parse_key *)
Definition s_min := [109; 105; 110].  Definition s_aeo := [97; 101; 111].
Definition s_maj := [109; 97; 106].   Definition s_ion := [105; 111; 110].
Definition s_m := [109].
Definition s_mix := [109; 105; 120].  Definition s_dor := [100; 111; 114].
Definition s_phr := [112; 104; 114].  Definition s_lyd := [108; 121; 100].
Definition s_loc := [108; 111; 99].

(* mode = key_components[2][:3].lower(); min/aeo -> 'm'; maj/ion -> '' *)
Definition norm_mode (mode : list Z) : list Z :=
  let m := lower_s (firstn 3 mode) in
  if str_eqb m s_min || str_eqb m s_aeo then s_m
  else if str_eqb m s_maj || str_eqb m s_ion then []
  else m.

Definition proto_mode (m : list Z) : res Z :=
  if str_eqb m [] then Ok MODE_MAJOR
  else if str_eqb m s_m then Ok MODE_MINOR
  else if str_eqb m s_mix then Ok MODE_MIXOLYDIAN
  else if str_eqb m s_dor then Ok MODE_DORIAN
  else if str_eqb m s_phr then Ok MODE_PHRYGIAN
  else if str_eqb m s_lyd then Ok MODE_LYDIAN
  else if str_eqb m s_loc then Ok MODE_LOCRIAN
  else Err EParse.                                  (* 'Unknown mode' *)

Fixpoint key_explicit (eacc : list (acc * Z)) (m : amap) : res amap :=
  match eacc with
  | [] => Ok m
  | (a, c) :: r =>
      let n := upper_c c in
      match a with
      | ANone => key_explicit r m
      | ASharp => key_explicit r (aset n 1 m)
      | AFlat => key_explicit r (aset n (-1) m)
      | ANat => key_explicit r (aset n 0 m)
      | ADSharp | ADFlat => Err EParse               (* 'Invalid accidental' *)
      end
  end.

(* returns (accidentals, proto_key, proto_mode) *)
Definition parse_key (tonic mode : list Z) (exp : bool) (eacc : list (acc * Z))
  : res (amap * Z * Z) :=
  let m := norm_mode mode in
  match assoc_s (lower_s (tonic ++ m)) KEY_TO_SIG with
  | None => Err EKeyError
  | Some sig =>
      match assoc_s (lower_s tonic) KEY_TO_PROTO_KEY with
      | None => Err EKeyError
      | Some pk =>
          do pm <- proto_mode m;
          do a <- key_explicit eacc (sig_to_accidentals (if exp then 0 else sig));
          Ok (a, pk, pm)
      end
  end.

(** * Tempo *)
Definition cur_qpm (s : st) : Q :=
  match tempos s with (_, q) :: _ => q | [] => qz DEFAULT_QPM end.

(* tempo.qpm = float((tempo_unit / Fraction(1, 4)) * tempo_rate) *)
Definition add_tempo (s : st) (u : option Q) (rate : Z) : res st :=
  match (match u with Some x => Some x | None => unit_len s end) with
  | None => Err ETypeError
  | Some x => Ok (set_tempos s ((cur s, qmul (qmul x (qz 4)) (qz rate)) :: tempos s))
  end.

Fixpoint sum_beats (bs : list (Z * Z)) (acc0 : Q) : res Q :=
  match bs with
  | [] => Ok acc0
  | (n, d) :: r => if d =? 0 then Err EZeroDiv else sum_beats r (qadd acc0 (qfrac n d))
  end.

(** * _add_section: returns the new state and the new id (None = duplicate) *)
Definition add_section (s : st) (time : Q) : st * option Z :=
  let s1 := match sects s with
            | [] => if qltb 0%Q time then set_sects s [(0%Q, 0)] else s
            | _ => s
            end in
  match sects s1 with
  | (t, id) :: _ =>
      if qeqb t time then (s1, None)
      else (set_sects s1 ((time, id + 1) :: sects s1), Some (id + 1))
  | [] => (set_sects s1 [(time, 0)], Some 0)
  end.

(* sg.sections.add(section_id = section_annotations[-2].section_id); num_times = n *)
Definition add_group_prev (s : st) (n : Z) : res st :=
  match sects s with
  | _ :: (_, id) :: _ => Ok (set_groups s ((id, n) :: groups s))
  | _ => Err EIndexError
  end.

(** * Information fields *)
Definition truthy_q (u : option Q) : bool :=
  match u with Some x => negb (qzero x) | None => false end.
Definition truthy_z (u : option Z) : bool :=
  match u with Some x => negb (x =? 0) | None => false end.

Definition parse_field (s : st) (f : field) : res st :=
  match f with
  | FNop => Ok s
  | FX n => Ok (set_refnum s n)
  | FM MC => Ok (set_tsigs s ((cur s, 4, 4) :: tsigs s))
  | FM MCut => Ok (set_tsigs s ((cur s, 2, 2) :: tsigs s))
  | FM MNone => Ok s
  | FM (MFrac n d) => Ok (set_tsigs s ((cur s, n, d) :: tsigs s))
  | FM MBad => Err EParse
  | FL n d => if d =? 0 then Err EZeroDiv else Ok (set_unit s (Some (qfrac n d)))
  | FQ QString => Ok s
  | FQ (QFrac beats rate) =>
      do u <- sum_beats beats 0%Q;
      if in_header s then Ok (set_htempo s (Some u) (Some rate))
      else add_tempo s (Some u) rate
  | FQ (QBare rate) =>
      if in_header s then Ok (set_htempo s None (Some rate))
      else add_tempo s None rate
  | FK tonic mode exp eacc =>
      do r <- parse_key tonic mode exp eacc;
      let '(a, pk, pm) := r in
      Ok (set_ksigs (set_kacc s a) ((cur s, pk, pm) :: ksigs s))
  | FKBad => Err EParse
  | FP => Err EPart
  | FV => Err EMultiVoice
  end.

(** * _set_values_from_header *)
Definition default_unit (s : st) : res Q :=
  match tsigs s with
  | [] => Ok (qfrac 1 8)
  | [(_, n, d)] =>
      if d =? 0 then Err EZeroDiv
      else if qltb (qfrac n d) (qfrac 3 4) then Ok (qfrac 1 16) else Ok (qfrac 1 8)
  | _ => Err EParse                        (* 'Multiple time signatures set in header.' *)
  end.

Definition set_values_from_header (s : st) : res st :=
  do s1 <- (if truthy_q (unit_len s) then Ok s
            else do u <- default_unit s; Ok (set_unit s (Some u)));
  if truthy_z (htempo_rate s1) then
    match htempo_rate s1 with
    | Some r => add_tempo s1 (htempo_unit s1) r
    | None => Ok s1
    end
  else Ok s1.

(** * Notes *)
Definition acc_change (a : acc) : res (option Z) :=
  match a with
  | ANone => Ok None
  | ASharp => Ok (Some 1)
  | AFlat => Ok (Some (-1))
  | ANat => Ok (Some 0)
  | ADSharp | ADFlat => Err EParse        (* group(1).split() = ['^^'] : 'Invalid accidental' *)
  end.

Definition oct_shift (octs : list bool) : Z :=
  fold_left (fun z (o : bool) => if o then z + 12 else z - 12) octs 0.

(* pitch of a note and the updated bar accidentals *)
Definition note_pitch (k b : amap) (a : acc) (letter : Z) (octs : list bool)
  : res (Z * amap) :=
  match assoc_z letter ABC_NOTE_TO_MIDI with
  | None => Err EKeyError
  | Some base =>
      let name := upper_c letter in
      do ch <- acc_change a;
      let '(delta, b') :=
        match ch with
        | Some c => (c, aset name c b)
        | None =>
            match aget name b with
            | Some c => (c, b)
            | None => (match aget name k with Some c => c | None => 0 end, b)
            end
        end in
      let p := base + delta + oct_shift octs in
      if (p <? MIN_MIDI_PITCH) || (MAX_MIDI_PITCH <? p) then Err EParse
      else Ok (p, b')
  end.

Definition note_length (u : Q) (l : lenspec) : res Q :=
  match ls_num l, ls_slashes l, ls_den l with
  | None, 0, _ => Ok u
  | None, k, None => Ok (qdiv u (qpow2 k))                       (* A// *)
  | None, k, Some m =>
      if k =? 1 then (if m =? 0 then Err EZeroDiv else Ok (qdiv u (qz m)))   (* A/3 *)
      else Err EValueError                                       (* int('/3') *)
  | Some n, 0, _ => Ok (qmul u (qz n))                           (* A3 *)
  | Some n, 1, None => Ok (qmul u (qfrac n 2))                   (* A3/ *)
  | Some n, 1, Some m => if m =? 0 then Err EZeroDiv else Ok (qmul u (qfrac n m))
  | Some _, _, _ => Err EParse                                   (* 'Could not parse note length' *)
  end.

(* seconds = (1 / (qpm / 60)) * (length / Fraction(1, 4)) *)
Definition note_seconds (qpm len : Q) : Q := qmul (qdiv (qz 60) qpm) (qmul len (qz 4)).

Definition apply_broken (s : st) (br : bool * Z) : res st :=
  match notes s with
  | n2 :: n1 :: rest =>
      let l1 := qsub (n_end n1) (n_start n1) in
      let l2 := qsub (n_end n2) (n_start n2) in
      if negb (qeqb l1 l2) then Err EParse
      else
        (* repaired code (notes/C04-fix-4.diff): a>>b is double dotted / quartered *)
        let adj := qsub l1 (qdiv l1 (qpow2 (snd br))) in
        if fst br then   (* '>' *)
          Ok (set_notes s (mkN (n_pitch n2) (qadd (n_start n2) adj) (n_end n2)
                           :: mkN (n_pitch n1) (n_start n1) (qadd (n_end n1) adj) :: rest))
        else
          Ok (set_notes s (mkN (n_pitch n2) (qsub (n_start n2) adj) (n_end n2)
                           :: mkN (n_pitch n1) (n_start n1) (qsub (n_end n1) adj) :: rest))
  | _ => Err EParse
  end.

Definition step_note (s : st) (a : acc) (letter : Z) (octs : list bool) (l : lenspec) : res st :=
  do pb <- note_pitch (kacc s) (bacc s) a letter octs;
  let '(p, b') := pb in
  match unit_len s with
  | None => Err ETypeError
  | Some u =>
      do len <- note_length u l;
      let qpm := cur_qpm s in
      if qzero qpm then Err EZeroDiv
      else
        let t1 := qadd (cur s) (note_seconds qpm len) in
        let s1 := set_notes (set_cur (set_bacc s b') t1) (mkN p (cur s) t1 :: notes s) in
        match broken s with
        | Some br => do s2 <- apply_broken s1 br; Ok (set_broken s2 None)
        | None => Ok s1
        end
  end.

(** * Bars and repeats *)
Definition repeat_common (s : st) (back fwd : option Z) : res st :=
  let mismatch :=
    match expected s with
    | Some e => match back with Some b => negb (b =? e) | None => true end
    | None => false
    end in
  if mismatch then Err ERepeat
  else
    let '(s1, new) := add_section s (cur s) in
    do s2 <- match back with
             | Some b => if qzero (cur s) then Err ERepeat else add_group_prev s1 b
             | None =>
                 match new with
                 | Some _ => if qltb 0%Q (cur s) then add_group_prev s1 1 else Ok s1
                 | None => Ok s1
                 end
             end;
    Ok (set_expected s2 fwd).

Definition step_bar (s : st) (lc blen rc : Z) : res st :=
  let s := set_bacc s [] in
  if (0 <? lc) || (0 <? rc) then
    repeat_common s (if 0 <? lc then Some (lc + 1) else None)
                    (if 0 <? rc then Some (rc + 1) else None)
  else if 2 <=? blen then
    match expected s with
    | Some _ => Ok s
    | None =>
        if qltb 0%Q (cur s) then
          let '(s1, new) := add_section s (cur s) in
          match new with
          | Some _ => add_group_prev s1 1
          | None => Ok s1
          end
        else Ok s
    end
  else Ok s.

(* '::' is a bar line: the repaired code (notes/C04-fix-2.diff) clears the bar
   accidentals here as it does for every other bar symbol; the unrepaired code
   does not (defect, see notes/C04.md) *)
Definition step_colons (s : st) (n : Z) : res st :=
  if negb (n mod 2 =? 0) then Err ERepeat
  else
    let r := n / 2 + 1 in
    repeat_common (set_bacc s []) (Some r) (Some r).

Definition step_token (s : st) (t : token) : res st :=
  match t with
  | TNote a letter octs l => step_note s a letter octs l
  | TBar lc blen rc => step_bar s lc blen rc
  | TColons n => step_colons s n
  | TBroken gt k =>
      match broken s with
      | Some _ => Err EParse             (* 'Cannot specify a broken rhythm twice in a row.' *)
      | None => Ok (set_broken s (Some (gt, k)))
      end
  | TInline f => parse_field s f
  | TNop => Ok s
  | TUnsup UChord => Err EChord
  | TUnsup UTuplet => Err ETuplet
  | TUnsup UVariant => Err EVariant
  | TUnsup UInvalid => Err EInvalidChar
  end.

Definition step_item (s : st) (i : item) : res st :=
  match i with
  | IField f => parse_field s f
  | ILine =>
      do s1 <- (if in_header s then
                  do s' <- set_values_from_header s; Ok (set_in_header s' false)
                else Ok s);
      Ok (set_broken s1 None)
  | ITok t => step_token s t
  end.

Fixpoint run_items (s : st) (is : list item) : res st :=
  match is with
  | [] => Ok s
  | i :: r => do s1 <- step_item s i; run_items s1 r
  end.

(** * _finalize *)
Definition finalize (s : st) : res st :=
  if truthy_z (expected s) then Err ERepeat
  else
    do s1 <- match sects s with
             | [] => Ok s
             | (t, _) :: rest =>
                 match notes s with
                 | [] => Err EIndexError
                 | n :: _ => if qeqb t (n_end n) then Ok (set_sects s rest) else Ok s
                 end
             end;
    match sects s1, groups s1 with
    | (_, id) :: _, (gid, _) :: _ =>
        if negb (gid =? id) then Ok (set_groups s1 ((id, 1) :: groups s1)) else Ok s1
    | _, _ => Ok s1
    end.

(** * A parsed tune: the observables of the NoteSequence, oldest first *)
Record tune := mkTune {
  t_ref : Z;
  t_notes : list nnote;
  t_tempos : list (Q * Q);
  t_tsigs : list (Q * Z * Z);
  t_ksigs : list (Q * Z * Z);
  t_sects : list (Q * Z);
  t_groups : list (Z * Z);
  t_total : Q }.

Definition tune_of (s : st) : tune :=
  mkTune (refnum s) (rev (notes s)) (rev (tempos s)) (rev (tsigs s)) (rev (ksigs s))
         (rev (sects s)) (rev (groups s))
         (match notes s with n :: _ => n_end n | [] => 0%Q end).

Definition parse_items (is : list item) : res tune :=
  do s1 <- run_items st0 is;
  do s2 <- (if in_header s1 then set_values_from_header s1 else Ok s1);
  do s3 <- finalize s2;
  Ok (tune_of s3).

Definition parse_tune (ls : list line) : res tune := parse_items (flatten ls).

(** * parse_abc_tunebook *)
Definition is_x_line (l : line) : bool :=
  match l with LField (FX _) => true | _ => false end.

Definition split_header (secs : list (list line)) : list line * list (list line) :=
  match secs with
  | h :: (_ :: _) as r => if existsb is_x_line h then ([], secs) else (h, r)
  | _ => ([], secs)
  end.

Inductive book :=
| BookOk (tunes : list tune) (excs : list exn)     (* tunes in insertion order *)
| BookRaise (e : exn).

Fixpoint book_loop (header : list line) (ts : list (list line))
                   (tunes : list tune) (excs : list exn) : book :=
  match ts with
  | [] => BookOk (rev tunes) (rev excs)
  | t :: r =>
      match parse_tune (header ++ t) with
      | Err e => if foreign e then BookRaise e else book_loop header r tunes (e :: excs)
      | Ok tn =>
          if existsb (fun x => t_ref x =? t_ref tn) tunes then BookRaise EDuplicate
          else book_loop header r (tn :: tunes) excs
      end
  end.

Definition parse_book (secs : list (list line)) : book :=
  let '(h, ts) := split_header secs in book_loop h ts [] [].

(** * sequences_lib.expand_section_groups on a parsed tune
      (notes are in start order for every parser output with positive lengths) *)
Fixpoint section_bounds (ss : list (Q * Z)) (total : Q) : list (Z * Q * Q) :=
  match ss with
  | [] => []
  | (t, id) :: r =>
      (id, t, match r with (t2, _) :: _ => t2 | [] => total end) :: section_bounds r total
  end.

(* later sections overwrite earlier ones with the same id (dict assignment) *)
Fixpoint find_section (id : Z) (bs : list (Z * Q * Q)) (found : option (Q * Q)) : option (Q * Q) :=
  match bs with
  | [] => found
  | (i, s, e) :: r => find_section id r (if i =? id then Some (s, e) else found)
  end.

Definition group_ids (gs : list (Z * Z)) : list Z :=
  flat_map (fun g => repeat (fst g) (Z.to_nat (snd g))) gs.

(* extract_subsequence(seq, s, e) then shift by [off] *)
Definition section_notes (ns : list nnote) (s e off : Q) : list nnote :=
  map (fun n => mkN (n_pitch n) (qadd (qsub (n_start n) s) off)
                    (qadd (qsub (if qltb e (n_end n) then e else n_end n) s) off))
      (filter (fun n => negb (qltb (n_start n) s) && qltb (n_start n) e) ns).

Fixpoint concat_sections (ns : list nnote) (bs : list (Z * Q * Q)) (ids : list Z) (off : Q)
  : res (list nnote) :=
  match ids with
  | [] => Ok []
  | i :: r =>
      match find_section i bs None with
      | None => Err EKeyError
      | Some (s, e) =>
          do rest <- concat_sections ns bs r (qadd off (qsub e s));
          Ok (section_notes ns s e off ++ rest)
      end
  end.

(* (section ids in playing order, notes) *)
Definition expand (t : tune) : res (list Z * list nnote) :=
  match t_groups t with
  | [] => Ok (map snd (t_sects t), t_notes t)
  | _ =>
      let bs := section_bounds (t_sects t) (t_total t) in
      if existsb (fun b => negb (qltb (snd (fst b)) (t_total t))) bs
      then Err EValueError           (* 'Cannot extract subsequence past end of sequence.' *)
      else
        let ids := group_ids (t_groups t) in
        do ns <- concat_sections (t_notes t) bs ids 0%Q;
        Ok (ids, ns)
  end.
