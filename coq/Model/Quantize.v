(** Model/Quantize.v — executable model of note_seq/sequences_lib.py:
    [quantize_to_step], [steps_per_quarter_to_steps_per_second],
    [_quantize_notes], [quantize_note_sequence],
    [quantize_note_sequence_absolute]   (property C01).

    Two layers.

    * Float layer, bit-exact in Coq primitive floats (binary64 = CPython's
      float): [q2s t sps = int(t*sps + (1 - QUANTIZE_CUTOFF))], with the cutoff
      regenerated from the module into Gen/G01.v on every run.

    * Sequence layer over the shared NoteSequence records.  It is generic in the
      step function [q : Z -> Z] (time code -> step), so that everything about
      "which fields change" is independent of rounding.

    Times and qpm values are carried in the records as *float codes*: the
    order-preserving integer image of a binary64 value
    (code x = bits(x) for x >= 0, -bits(|x|) for x < 0; +0.0 and -0.0 both 0),
    so that Python's [<], [==], [!= 0] on finite floats are [Z] comparisons on
    codes and [sorted(..., key=time)] is a stable sort on codes.  [fdec] turns a
    code back into the float for the arithmetic.

    No proofs here. *)
From Coq Require Import ZArith List Bool Floats.
From NS Require Import Base.Sx Base.NoteSeq Base.FloatBridge Gen.G01.
Import ListNotations.
Local Open Scope Z_scope.

(** * Float layer *)

(** decode a float code (see header) *)
Definition fdec (c : Z) : PrimFloat.float :=
  let a := Z.abs c in
  let eb := a / 4503599627370496 in          (* 2^52 *)
  let fr := a mod 4503599627370496 in
  let s := if c <? 0 then (-1) else 1 in
  if eb =? 0 then f_of_me (s * fr) (-1074)
  else f_of_me (s * (fr + 4503599627370496)) (eb - 1075).

(** QUANTIZE_CUTOFF as a float; [1 - quantize_cutoff] is Python int 1 minus a float. *)
Definition cutoff : PrimFloat.float := f_of_me QUANTIZE_CUTOFF_M QUANTIZE_CUTOFF_E.
Definition one_minus_cutoff : PrimFloat.float := (1 - cutoff)%float.

(** quantize_to_step(unquantized_seconds, steps_per_second) with the default cutoff *)
Definition q2s (t sps : PrimFloat.float) : Z :=
  trunc (t * sps + one_minus_cutoff)%float.

(** quantize_to_step(unquantized_seconds, steps_per_second, quantize_cutoff=c) for an explicit cutoff
    ([q2s] is the instance at the regenerated default, by definition of [one_minus_cutoff]) *)
Definition q2s_cut (c t sps : PrimFloat.float) : Z :=
  trunc (t * sps + (1 - c))%float.

(** steps_per_quarter_to_steps_per_second(steps_per_quarter:int, qpm:float) =
    steps_per_quarter * qpm / 60.0  (int converted to float, two roundings) *)
Definition sps_rel (spq : Z) (qpm : PrimFloat.float) : PrimFloat.float :=
  (f_of_Z spq * qpm / 60)%float.

(** absolute quantization passes the int steps_per_second: t * int -> t * float(int) *)
Definition sps_abs (sps : Z) : PrimFloat.float := f_of_Z sps.

(** step function on time codes *)
Definition qstep (sps : PrimFloat.float) (c : Z) : Z := q2s (fdec c) sps.

(** * Sequence layer *)

Inductive qerr := MultipleTempo | MultipleTimeSig | BadTimeSig | NegativeTime.
Inductive res (A : Type) := Ok (a : A) | Err (e : qerr).
Arguments Ok {A} a.
Arguments Err {A} e.

Definition cc_with_qstep (c : cc) (s : Z) : cc :=
  mkCc (cc_time c) s (cc_num c) (cc_val c) (cc_instr c) (cc_prog c) (cc_drum c).
Definition text_with_qstep (t : text) (s : Z) : text :=
  mkText (tx_time t) s (tx_text t) (tx_type t).

(** the note loop of _quantize_notes: [total] is note_sequence.total_quantized_steps
    as it evolves; [None] = NegativeTimeError raised at the first offending note *)
Fixpoint qnotes_loop (q : Z -> Z) (ns : list note) (total : Z) : option (list note * Z) :=
  match ns with
  | [] => Some ([], total)
  | n :: r =>
      let qs := q (n_start n) in
      let qe0 := q (n_end n) in
      let qe := if qe0 =? qs then qe0 + 1 else qe0 in
      if (qs <? 0) || (qe <? 0) then None
      else
        let total' := if qe >? total then qe else total in
        match qnotes_loop q r total' with
        | Some (r', t) => Some (note_with_qsteps n qs qe :: r', t)
        | None => None
        end
  end.

(** the event loop (control changes, then text annotations) *)
Fixpoint qccs_loop (q : Z -> Z) (l : list cc) : option (list cc) :=
  match l with
  | [] => Some []
  | c :: r =>
      let s := q (cc_time c) in
      if s <? 0 then None
      else match qccs_loop q r with Some r' => Some (cc_with_qstep c s :: r') | None => None end
  end.

Fixpoint qtexts_loop (q : Z -> Z) (l : list text) : option (list text) :=
  match l with
  | [] => Some []
  | t :: r =>
      let s := q (tx_time t) in
      if s <? 0 then None
      else match qtexts_loop q r with Some r' => Some (text_with_qstep t s :: r') | None => None end
  end.

(** _quantize_notes(note_sequence, steps_per_second), in place on the copy *)
Definition quantize_notes (q : Z -> Z) (s : seq) : res seq :=
  match qnotes_loop q (s_notes s) (s_qsteps s) with
  | None => Err NegativeTime
  | Some (ns', total') =>
      match qccs_loop q (s_ccs s) with
      | None => Err NegativeTime
      | Some ccs' =>
          match qtexts_loop q (s_texts s) with
          | None => Err NegativeTime
          | Some texts' =>
              Ok (mkSeq ns' (s_tempos s) (s_tsigs s) (s_ksigs s) texts' ccs' (s_bends s) (s_sects s)
                        (s_total s) total' (s_spq s) (s_sps s) (s_sub s) (s_tpq s) (s_rest s))
          end
      end
  end.

(** quantization_info is a oneof: setting one resolution clears the other *)
Definition with_quant (s : seq) (spq sps total_q : Z) : seq :=
  mkSeq (s_notes s) (s_tempos s) (s_tsigs s) (s_ksigs s) (s_texts s) (s_ccs s) (s_bends s) (s_sects s)
        (s_total s) total_q spq sps (s_sub s) (s_tpq s) (s_rest s).
Definition with_tempos_tsigs (s : seq) (tps : list tempo) (tss : list tsig) : seq :=
  mkSeq (s_notes s) tps tss (s_ksigs s) (s_texts s) (s_ccs s) (s_bends s) (s_sects s)
        (s_total s) (s_qsteps s) (s_spq s) (s_sps s) (s_sub s) (s_tpq s) (s_rest s).

(** quantize_note_sequence_absolute(note_sequence, steps_per_second:int) *)
Definition quantize_abs (sps : Z) (s : seq) : res seq :=
  let q := qstep (sps_abs sps) in
  quantize_notes q (with_quant s 0 sps (q (s_total s))).

(** Python's stable sorted(..., key=time): insertion sort on codes *)
(* [sort_by] folds from the right and puts x before the first element whose key is
   >= key x, so an element that was earlier stays earlier among equal keys. *)
Fixpoint insert_before {A} (key : A -> Z) (x : A) (l : list A) : list A :=
  match l with
  | [] => [x]
  | y :: r => if key x <=? key y then x :: y :: r else y :: insert_before key x r
  end.
Fixpoint sort_by {A} (key : A -> Z) (l : list A) : list A :=
  match l with
  | [] => []
  | x :: r => insert_before key x (sort_by key r)
  end.

(** _is_power_of_2(x) = x and not x & (x - 1)   (negative x: never) *)
Definition is_pow2 (x : Z) : bool := (0 <? x) && (Z.land x (x - 1) =? 0).

Definition tsig_same (a b : tsig) : bool := (ts_num a =? ts_num b) && (ts_den a =? ts_den b).

(** The time-signature block.  [legacy = true] is the code before notes/C01-fix-1.diff
    (later entries compared with the *storage-first* entry); [false] is the
    repaired code (compared with the time-first entry).  Result: the new
    time_signatures list. *)
Definition check_tsigs (legacy : bool) (tss : list tsig) : res (list tsig) :=
  match tss with
  | [] => Ok [mkTsig 0 4 4]
  | stored0 :: _ =>
      match sort_by ts_time tss with
      | [] => Ok [mkTsig 0 4 4]      (* unreachable: sort preserves length *)
      | first :: later =>
          if negb (ts_time first =? 0) && negb ((ts_num first =? 4) && (ts_den first =? 4))
          then Err MultipleTimeSig
          else
            let ref := if legacy then stored0 else first in
            if forallb (fun t => tsig_same t ref) later
            then Ok [mkTsig 0 (ts_num stored0) (ts_den stored0)]
            else Err MultipleTimeSig
      end
  end.

Definition check_tsig_value (t : tsig) : bool := is_pow2 (ts_den t) && negb (ts_num t =? 0).

(** The tempo block; qpm values are float codes, equality of codes = float [==]
    on the quantified domain (finite, non-zero qpm). *)
Definition check_tempos (legacy : bool) (tps : list tempo) : res (list tempo) :=
  match tps with
  | [] => Ok [mkTempo 0 DEFAULT_QPM_CODE]
  | stored0 :: _ =>
      match sort_by tp_time tps with
      | [] => Ok [mkTempo 0 DEFAULT_QPM_CODE]
      | first :: later =>
          if negb (tp_time first =? 0) && negb (tp_qpm first =? DEFAULT_QPM_CODE)
          then Err MultipleTempo
          else
            let ref := if legacy then stored0 else first in
            if forallb (fun t => tp_qpm t =? tp_qpm ref) later
            then Ok [mkTempo 0 (tp_qpm stored0)]
            else Err MultipleTempo
      end
  end.

Definition hd_tsig (l : list tsig) : tsig := hd (mkTsig 0 4 4) l.
Definition hd_tempo (l : list tempo) : tempo := hd (mkTempo 0 DEFAULT_QPM_CODE) l.

(** quantize_note_sequence(note_sequence, steps_per_quarter), checks in code order *)
Definition quantize_rel_gen (legacy : bool) (spq : Z) (s : seq) : res seq :=
  match check_tsigs legacy (s_tsigs s) with
  | Err e => Err e
  | Ok tss =>
      if negb (check_tsig_value (hd_tsig tss)) then Err BadTimeSig
      else
        match check_tempos legacy (s_tempos s) with
        | Err e => Err e
        | Ok tps =>
            let q := qstep (sps_rel spq (fdec (tp_qpm (hd_tempo tps)))) in
            let s1 := with_tempos_tsigs s tps tss in
            quantize_notes q (with_quant s1 spq 0 (q (s_total s)))
        end
  end.

(** the model of the code the check is run against (repaired code) *)
Definition quantize_rel := quantize_rel_gen false.
(** the code as it was before the repair (kept for the recorded refutation) *)
Definition quantize_rel_legacy := quantize_rel_gen true.
