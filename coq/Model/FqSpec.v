(** Model/FqSpec.v — declarative step-for-step specifications of what each extractor must
    produce (C07).  Written with filter / existsb / map over the INPUT note list only, so that
    independence of storage order and the meaning of every event is visible by inspection.
    The theorems in Proofs/Fq*.v state [model = spec]. No proofs here. *)
From Coq Require Import ZArith List Bool.
From NS Require Import Base.NoteSeq Gen.G07 Model.FqCommon Model.FqMelody Model.FqDrums
  Model.FqChords Model.FqPianoroll Model.FqPerformance.
Import ListNotations.
Local Open Scope Z_scope.

(** * PianorollSequence: frame [s] (relative to start_step) holds pitch offset [q] iff an
    in-range note that starts at or after start_step covers step [s], unless (split_repeats) an
    in-range note of the same pitch starts at step [s+1]. *)
Definition pr_covers (p : pr_params) (s q : Z) (n : note) : bool :=
  pr_keep p n && (n_pitch n - pp_min_pitch p =? q)
  && (n_qstart n - pp_start p <=? s) && (s <? n_qend n - pp_start p).

Definition pr_restarts (p : pr_params) (s q : Z) (n : note) : bool :=
  pr_keep p n && (n_pitch n - pp_min_pitch p =? q) && (n_qstart n - pp_start p =? s + 1).

Definition pr_spec_cell (p : pr_params) (ns : list note) (s q : Z) : bool :=
  existsb (pr_covers p s q) ns && negb (pp_split p && existsb (pr_restarts p s q) ns).

Definition pr_spec_frame (p : pr_params) (ns : list note) (s : Z) : list Z :=
  filter (pr_spec_cell p ns s) (range_from 0 (Z.to_nat (pp_max_pitch p - pp_min_pitch p + 1))).

(** * DrumTrack: [ks] = the ascending distinct steps at which an accepted drum note starts.  The
    track keeps the hits up to (excluding) the first one that comes [gap_steps] or more steps after
    the step following the previous hit; the event at step [s] is the list of the pitches (storage
    order; a set in Python) of the accepted notes starting at [s]. *)
Fixpoint dr_cut (gap_steps prev : Z) (ks : list Z) : list Z :=
  match ks with
  | [] => []
  | k :: r => if gap_steps <=? k - (prev + 1) then [] else k :: dr_cut gap_steps k r
  end.

Definition dr_kept_steps (gap_steps : Z) (ks : list Z) : list Z :=
  match ks with [] => [] | k :: r => k :: dr_cut gap_steps k r end.

Definition dr_spec_event (p : dr_params) (ns : list note) (last s : Z) : list Z :=
  if s <=? last then map n_pitch (filter (fun n => dr_keep p n && (n_qstart n =? s)) ns) else [].

(** * ChordProgression: [cs] = the chord annotations in (stable) step order; the chord in force at
    step [s] is the text of the last chord of [cs] whose step is <= s, or NO_CHORD. *)
Definition ch_in_force (cs : list text) (s : Z) : list Z :=
  fold_left (fun acc c => if tx_qstep c <=? s then tx_text c else acc) cs NO_CHORD.

(** two chord annotations on one step of [start, end) with different figures *)
Definition ch_clash (cs : list text) (start end_ : Z) : Prop :=
  exists c1 c2, In c1 cs /\ In c2 cs /\ tx_qstep c1 = tx_qstep c2 /\
                start <= tx_qstep c1 < end_ /\ tx_text c1 <> tx_text c2.
