(** Model/FqSpec.v — declarative step-for-step specifications of what each extractor must
    produce (C07).  Written with filter / existsb / map over the INPUT note list only, so that
    independence of storage order and the meaning of every event is visible by inspection.
    The theorems in Proofs/Fq*.v state [model = spec]. No proofs here. *)
From Coq Require Import ZArith List Bool.
From NS Require Import Base.NoteSeq Gen.G07 Model.FqCommon Model.FqMelody Model.FqDrums
  Model.FqChords Model.FqPianoroll Model.FqPerformance.
Import ListNotations.
Local Open Scope Z_scope.

(** * PianorollSequence: frame [s] (relative to start_step) holds pitch offset [q] iff an
    in-range note that starts at or after start_step covers step [s], unless (split_repeats) an
    in-range note of the same pitch starts at step [s+1]. *)
Definition pr_covers (p : pr_params) (s q : Z) (n : note) : bool :=
  pr_keep p n && (n_pitch n - pp_min_pitch p =? q)
  && (n_qstart n - pp_start p <=? s) && (s <? n_qend n - pp_start p).

Definition pr_restarts (p : pr_params) (s q : Z) (n : note) : bool :=
  pr_keep p n && (n_pitch n - pp_min_pitch p =? q) && (n_qstart n - pp_start p =? s + 1).

Definition pr_spec_cell (p : pr_params) (ns : list note) (s q : Z) : bool :=
  existsb (pr_covers p s q) ns && negb (pp_split p && existsb (pr_restarts p s q) ns).

Definition pr_spec_frame (p : pr_params) (ns : list note) (s : Z) : list Z :=
  filter (pr_spec_cell p ns s) (range_from 0 (Z.to_nat (pp_max_pitch p - pp_min_pitch p + 1))).

(** * DrumTrack: [ks] = the ascending distinct steps at which an accepted drum note starts.  The
    track keeps the hits up to (excluding) the first one that comes [gap_steps] or more steps after
    the step following the previous hit; the event at step [s] is the list of the pitches (storage
    order; a set in Python) of the accepted notes starting at [s]. *)
Fixpoint dr_cut (gap_steps prev : Z) (ks : list Z) : list Z :=
  match ks with
  | [] => []
  | k :: r => if gap_steps <=? k - (prev + 1) then [] else k :: dr_cut gap_steps k r
  end.

Definition dr_kept_steps (gap_steps : Z) (ks : list Z) : list Z :=
  match ks with [] => [] | k :: r => k :: dr_cut gap_steps k r end.

Definition dr_spec_event (p : dr_params) (ns : list note) (last s : Z) : list Z :=
  if s <=? last then map n_pitch (filter (fun n => dr_keep p n && (n_qstart n =? s)) ns) else [].

(** * ChordProgression: [cs] = the chord annotations in (stable) step order; the chord in force at
    step [s] is the text of the last chord of [cs] whose step is <= s, or NO_CHORD. *)
Definition ch_in_force (cs : list text) (s : Z) : list Z :=
  fold_left (fun acc c => if tx_qstep c <=? s then tx_text c else acc) cs NO_CHORD.

(** two chord annotations on one step of [start, end) with different figures *)
Definition ch_clash (cs : list text) (start end_ : Z) : Prop :=
  exists c1 c2, In c1 cs /\ In c2 cs /\ tx_qstep c1 = tx_qstep c2 /\
                start <= tx_qstep c1 < end_ /\ tx_text c1 <> tx_text c2.

(** * Performance: what a rendered performance must give back for every selected note *)
Definition pf_selected (p : pf_params) (ns : list note) : list note :=
  filter (pf_keep (fp_start p) (fp_instrument p)) ns.

(** the velocity a note comes back with: the representative of its bin, or the caller's default
    velocity when velocity events are disabled (num_velocity_bins = 0) *)
Definition pf_vel_rep (nb default_velocity v : Z) : Z :=
  if nb =? 0 then default_velocity else bin_to_vel (vel_to_bin v nb) nb.

Definition pf_note_proj (nb default_velocity : Z) (n : note) : snote :=
  (n_pitch n, n_qstart n, n_qend n, pf_vel_rep nb default_velocity (n_vel n)).

Definition sum_shifts (evs : list pevent) : Z :=
  fold_right (fun e acc => if fst e =? EV_TIME_SHIFT then snd e + acc else acc) 0 evs.

(** steps from start_step to the end of the last selected note *)
Definition pf_elapsed (p : pf_params) (ns : list note) : Z :=
  fold_right Z.max 0 (map (fun n => n_qend n - fp_start p) (pf_selected p ns)).

(** no two notes of one pitch overlap (in particular no note occurs twice) *)
Definition no_pitch_overlap (l : list note) : Prop :=
  NoDup l /\
  forall a b, In a l -> In b l -> a <> b -> n_pitch a = n_pitch b ->
    n_qend a <= n_qstart b \/ n_qend b <= n_qstart a.

(** * Melody.  [cs] = the candidate notes (right instrument, at or after search_start_step, not a
    filtered drum, non-zero velocity) sorted by (start step, pitch descending).
    [mel_heads]: the first (= highest) candidate of every start step.
    [mel_accepted]: the heads up to (excluding) the first one that starts [gap_steps] or more
    steps after the END of the previous accepted note. *)
Fixpoint mel_heads_from (prev : Z) (cs : list note) : list note :=
  match cs with
  | [] => []
  | a :: r => if n_qstart a =? prev then mel_heads_from prev r
              else a :: mel_heads_from (n_qstart a) r
  end.

Definition mel_heads (cs : list note) : list note :=
  match cs with [] => [] | a :: r => a :: mel_heads_from (n_qstart a) r end.

Fixpoint mel_cut (gap_steps : Z) (prev : note) (l : list note) : list note :=
  match l with
  | [] => []
  | b :: r => if gap_steps <=? n_qstart b - n_qend prev then [] else b :: mel_cut gap_steps b r
  end.

Definition mel_accepted (gap_steps : Z) (cs : list note) : list note :=
  match mel_heads cs with [] => [] | a :: r => a :: mel_cut gap_steps a r end.

(** the last accepted note starting at or before step [s] *)
Definition mel_current (acc : list note) (s : Z) : option note :=
  fold_left (fun o b => if n_qstart b <=? s then Some b else o) acc None.

(** event at absolute step [s] while the melody lasts: onset of the accepted note starting at [s];
    NOTE_OFF where the current note ends (nothing newer having started); NO_EVENT otherwise *)
Definition mel_event_at (acc : list note) (s : Z) : Z :=
  match mel_current acc s with
  | None => MELODY_NO_EVENT
  | Some b => if n_qstart b =? s then n_pitch b
              else if n_qend b =? s then MELODY_NOTE_OFF else MELODY_NO_EVENT
  end.

(** event [i] of a melody that starts at [mss] and whose last accepted note ends at step
    [mss + L]: the final note's NOTE_OFF (index L) exists only if the melody is padded beyond it *)
Definition mel_spec_event (acc : list note) (mss L i : Z) : Z :=
  if i <? L then mel_event_at acc (mss + i)
  else if i =? L then MELODY_NOTE_OFF else MELODY_NO_EVENT.

(** a candidate other than the accepted note itself starts on an accepted note's step *)
Fixpoint mel_dup (gap_steps : Z) (b : note) (cs : list note) : bool :=
  match cs with
  | [] => false
  | n :: r => if n_qstart n =? n_qstart b then true
              else if gap_steps <=? n_qstart n - n_qend b then false
              else mel_dup gap_steps n r
  end.

(** polyphony as the property states it: two candidates (two positions of [cs]) start on the step
    of an accepted note *)
Definition mel_poly (cs acc : list note) : Prop :=
  exists l1 a l2 n l3, cs = l1 ++ a :: l2 ++ n :: l3 /\ n_qstart n = n_qstart a /\ In a acc.
