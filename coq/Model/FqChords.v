(** Model/FqChords.v — chords_lib.ChordProgression.from_quantized_sequence (C07, reused by C06).

    INTERFACE
    - an event is a chord figure = [list Z] of character codes; [NO_CHORD] from Gen.G07.
    - [ch_from_quantized s start_step end_step : res ch_result] with [ce_events], [ce_start],
      [ce_end], [ce_spb], [ce_spq]; errors: E_QSTATUS, E_NONINT, E_COINCIDENT, E_BADCHORD.
    The E_NONINT exit follows the code after notes/C07-fix-4.diff (the unpatched code raises
    AttributeError while formatting the NonIntegerStepsPerBarError message). *)
From Coq Require Import ZArith List Bool.
From NS Require Import Base.NoteSeq Gen.G07 Model.FqCommon.
Import ListNotations.
Local Open Scope Z_scope.

Record ch_result := mkChResult {
  ce_events : list (list Z); ce_start : Z; ce_end : Z; ce_spb : Z; ce_spq : Z }.

Fixpoint zs_eqb (a b : list Z) : bool :=
  match a, b with
  | [], [] => true
  | x :: a', y :: b' => (x =? y) && zs_eqb a' b'
  | _, _ => false
  end.

Definition ch_le (a b : text) : bool := tx_qstep a <=? tx_qstep b.

Definition ch_sorted (ts : list text) : list text :=
  isort ch_le (filter (fun a => tx_type a =? CHORD_SYMBOL) ts).

(** ChordProgression._add_chord *)
Definition ch_add (fig : list Z) (si ei : Z) (evs : list (list Z)) : res (list (list Z)) :=
  if ei <=? si then Err E_BADCHORD
  else Ok (zfirstn si (set_length NO_CHORD ei evs) ++ zrepeat fig (ei - si)).

Definition ch_start_index (prev : option Z) (start : Z) : Z :=
  match prev with None => 0 | Some ps => Z.max ps start - start end.

(** The loop; state = (prev_step, prev_figure, events). *)
Fixpoint ch_loop (start end_ : Z) (cs : list text) (prev : option Z) (fig : list Z)
         (evs : list (list Z)) : res (option Z * list Z * list (list Z)) :=
  match cs with
  | [] => Ok (prev, fig, evs)
  | c :: r =>
      let q := tx_qstep c in
      if end_ <=? q then Ok (prev, fig, evs)                                     (* break *)
      else if q <? start then ch_loop start end_ r (Some q) (tx_text c) evs      (* before range *)
      else if (match prev with Some ps => q =? ps | None => false end) then
        if zs_eqb (tx_text c) fig then ch_loop start end_ r prev fig evs
        else Err E_COINCIDENT
      else if start <? q then
        bind (ch_add fig (ch_start_index prev start) (q - start) evs)
             (fun evs' => ch_loop start end_ r (Some q) (tx_text c) evs')
      else ch_loop start end_ r (Some q) (tx_text c) evs
  end.

Definition ch_from_quantized (s : seq) (start end_ : Z) : res ch_result :=
  bind (steps_per_bar s) (fun spb =>
  bind (ch_loop start end_ (ch_sorted (s_texts s)) None NO_CHORD []) (fun st =>
  let '(prev, fig, evs) := st in
  if (match prev with None => true | Some ps => ps <? end_ end) then
    bind (ch_add fig (ch_start_index prev start) (end_ - start) evs) (fun evs' =>
    Ok (mkChResult evs' start end_ spb (s_spq s)))
  else Ok (mkChResult evs start end_ spb (s_spq s)))).
