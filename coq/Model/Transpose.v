(** Model/Transpose.v — transposition of sequences, melodies and lead sheets (C10):
    sequences_lib.transpose_note_sequence, sequences_lib._clamp_transpose,
    melodies_lib.Melody.transpose / get_note_histogram / get_major_key_histogram /
    get_major_key / squash, lead_sheets_lib.LeadSheet.transpose / squash.

    Written pass by pass like the code.  Times are exact ticks, never computed
    with (only compared and copied).  Chord-symbol texts are figure codes (see
    Model/ChordTranspose.v).  [None] models ChordSymbolError.  No proofs here. *)
From Coq Require Import ZArith List Bool.
From NS Require Import Base.NoteSeq Gen.G10 Model.ChordTranspose.
Import ListNotations.
Local Open Scope Z_scope.

(** * transpose_note_sequence *)

(* pitch += amount; pitch_name = UNKNOWN_PITCH_NAME.  pitch_name is the part of
   the opaque [n_rest] token above 2^16 (see harness/vt/nsio.py:note_rest) *)
Definition PITCH_NAME_UNIT : Z := 65536.
Definition note_transposed (k : Z) (n : note) : note :=
  mkNote (n_pitch n + k) (n_vel n) (n_start n) (n_end n) (n_instr n) (n_prog n) (n_drum n)
         (n_qstart n) (n_qend n) (n_rest n mod PITCH_NAME_UNIT + PITCH_NAME_UNIT * UNKNOWN_PITCH_NAME).

(* the loop over ns.notes: (new_note_list, deleted_note_count, end_time) *)
Fixpoint notes_pass (k lo hi : Z) (ns : list note) (acc : list note) (deleted end_time : Z)
  : list note * Z * Z :=
  match ns with
  | [] => (rev acc, deleted, end_time)
  | n :: r =>
      let new_pitch := n_pitch n + k in
      if ((lo <=? new_pitch) && (new_pitch <=? hi)) || n_drum n then
        let end_time' := Z.max end_time (n_end n) in
        let n' := if negb (n_drum n) then note_transposed k n else n in
        notes_pass k lo hi r (n' :: acc) deleted end_time'
      else
        notes_pass k lo hi r acc (deleted + 1) end_time
  end.

Definition text_with (t : text) (s : list Z) : text := mkText (tx_time t) (tx_qstep t) s (tx_type t).

(* the transpose_chords=True loop; the first unparseable figure raises *)
Definition text_transposed (k : Z) (t : text) : option text :=
  if (tx_type t =? CHORD_SYMBOL) && negb (is_no_chord (tx_text t)) then
    match transpose_figure (tx_text t) k with
    | None => None
    | Some s => Some (text_with t s)
    end
  else Some t.

(* the transpose_chords=False branch *)
Definition texts_without_chords (ts : list text) : list text :=
  filter (fun t => negb (tx_type t =? CHORD_SYMBOL)) ts.

Definition ksig_transposed (k : Z) (s : ksig) : ksig := mkKsig (ks_time s) ((ks_key s + k) mod 12) (ks_mode s).

Definition transpose_ns (s : seq) (k lo hi : Z) (transpose_chords : bool) : option (seq * Z) :=
  let '(new_notes, deleted, end_time) := notes_pass k lo hi (s_notes s) [] 0 0 in
  (* `if deleted_note_count > 0: del ns.notes[:]; ns.notes.extend(new_note_list)`: the kept notes were
     edited in place, so ns.notes holds the same values on both branches *)
  let texts := if transpose_chords then map_opt (text_transposed k) (s_texts s)
               else Some (texts_without_chords (s_texts s)) in
  match texts with
  | None => None
  | Some txs =>
      Some (mkSeq new_notes (s_tempos s) (s_tsigs s) (map (ksig_transposed k) (s_ksigs s)) txs
                  (s_ccs s) (s_bends s) (s_sects s) end_time (s_qsteps s) (s_spq s) (s_sps s)
                  (s_sub s) (s_tpq s) (s_rest s),
            deleted)
  end.

(* _clamp_transpose *)
Definition clamp_transpose (amount ns_min ns_max lo hi : Z) : Z :=
  if amount <? 0 then - Z.min (ns_min - lo) (Z.abs amount)
  else Z.min (hi - ns_max) amount.

(** * Melody.transpose *)
Definition mel_event (k lo hi e : Z) : Z :=
  if MIN_MIDI_PITCH <=? e then
    let e1 := e + k in
    if e1 <? lo then lo + (e1 - lo) mod NOTES_PER_OCTAVE
    else if hi <=? e1 then hi - NOTES_PER_OCTAVE + (e1 - hi) mod NOTES_PER_OCTAVE
    else e1
  else e.

Definition mel_transpose (k lo hi : Z) (evs : list Z) : list Z := map (mel_event k lo hi) evs.

(** * Melody.squash *)
Definition count_pc (evs : list Z) (c : Z) : Z :=
  Z.of_nat (length (filter (fun e => (MIN_MIDI_PITCH <=? e) && (e mod NOTES_PER_OCTAVE =? c)) evs)).

Definition iota12 : list Z := [0; 1; 2; 3; 4; 5; 6; 7; 8; 9; 10; 11].

(* get_note_histogram: np.bincount(events[events >= 0] % 12, minlength=12) *)
Definition note_histogram (evs : list Z) : list Z := map (count_pc evs) iota12.

Definition zsum (l : list Z) : Z := fold_right Z.add 0 l.
Definition zmem (x : Z) (l : list Z) : bool := existsb (Z.eqb x) l.

(* get_major_key_histogram: key_histogram[NOTE_KEYS[note]] += count *)
Definition key_histogram (evs : list Z) : list Z :=
  let h := note_histogram evs in
  map (fun key => zsum (map (fun note => if zmem key (nth (Z.to_nat note) NOTE_KEYS [])
                                         then nth (Z.to_nat note) h 0 else 0) iota12)) iota12.

(* argmax: index of the first maximal element *)
Fixpoint argmax_from (l : list Z) (i best_i best : Z) : Z :=
  match l with
  | [] => best_i
  | x :: r => if best <? x then argmax_from r (i + 1) i x else argmax_from r (i + 1) best_i best
  end.
Definition argmax (l : list Z) : Z :=
  match l with [] => 0 | x :: r => argmax_from r 1 0 x end.

Definition major_key (evs : list Z) : Z := argmax (key_histogram evs).

Definition zmin_list (x : Z) (l : list Z) : Z := fold_left Z.min l x.
Definition zmax_list (x : Z) (l : list Z) : Z := fold_left Z.max l x.

(* Python round() of the exact rational n/d (d > 0): half to even *)
Definition round_half_even (n d : Z) : Z :=
  let q := n / d in
  let r := n mod d in
  if 2 * r <? d then q
  else if d <? 2 * r then q + 1
  else if Z.even q then q else q + 1.

(* squash(min_note, max_note, transpose_to_key): (transpose_amount, events afterwards).
   Centres are half-integers; they are kept doubled ([c2 = 2 * centre]).  The float
   expression round(center_diff / 12.0) is exact at the ties (half-integers are
   representable) and unambiguous elsewhere (distance >= 1/24 from a tie). *)
Definition mel_squash (lo hi : Z) (to_key : option Z) (evs : list Z) : Z * list Z :=
  match to_key with
  | None => (0, mel_transpose 0 lo hi evs)
  | Some key =>
      let key_diff := key - major_key evs in
      let midi_notes := filter (fun e => (MIN_MIDI_PITCH <=? e) && (e <=? MAX_MIDI_PITCH)) evs in
      match midi_notes with
      | [] => (0, evs)                                   (* early `return 0`: nothing is transposed *)
      | x :: r =>
          let mn := zmin_list x r in
          let mx := zmax_list x r in
          let melody_center2 := mn + mx in
          let target_center2 := lo + hi - 1 in
          let center_diff2 := target_center2 - (melody_center2 + 2 * key_diff) in
          let amount := key_diff + NOTES_PER_OCTAVE * round_half_even center_diff2 (2 * NOTES_PER_OCTAVE) in
          (amount, mel_transpose amount lo hi evs)
      end
  end.

(** * LeadSheet.transpose / squash: melody first, then the chords *)
Definition ls_transpose (k lo hi : Z) (mel : list Z) (chords : list (list Z)) : option (list Z * list (list Z)) :=
  let mel' := mel_transpose k lo hi mel in
  match prog_transpose k chords with
  | None => None
  | Some cs => Some (mel', cs)
  end.

Definition ls_squash (lo hi key : Z) (mel : list Z) (chords : list (list Z))
  : option (Z * list Z * list (list Z)) :=
  let '(amount, mel') := mel_squash lo hi (Some key) mel in
  match prog_transpose amount chords with
  | None => None
  | Some cs => Some (amount, mel', cs)
  end.
