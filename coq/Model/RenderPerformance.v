(** Model/RenderPerformance.v — performance_lib: Performance / MetricPerformance / NotePerformance
    [to_sequence] at step level as re-quantized notes, and the canonical performances (C06).

    The step-level decoders themselves are C07's: [pf_to_step_notes] (BasePerformance._to_sequence:
    FIFO of open notes per pitch, zero-length notes dropped, notes still open at the end closed at
    the final step) and [np_to_step_notes] (NotePerformance.to_sequence) in Model/FqPerformance.v.
    Here they are wrapped into the notes the extractor sees after re-quantization.

    [canonical_perf nb ms es]: BOOLEAN, structural; the event lists
    [BasePerformance._from_quantized_sequence(num_velocity_bins=nb, max_shift_steps=ms)] returns
    for quantized sequences whose notes have positive length, no two overlapping notes of one
    pitch, and start times ordered like their start steps:
    - TIME_SHIFT values in 1..ms; in a run of consecutive shifts all but the last are [ms];
      a shift is never the last event and never follows a VELOCITY;
    - within one step: first the NOTE_OFFs, in (start step, pitch) order of the notes they end,
      then the NOTE_ONs in ascending pitch order; a NOTE_OFF ends a note opened at an earlier step
      (so "note-offs match earlier note-ons"); a NOTE_ON never re-opens a pitch that is still open;
    - VELOCITY (only if nb > 0) has a value >= 1 that differs from the current bin and is
      immediately followed by a NOTE_ON; with nb > 0 the first NOTE_ON is preceded by a VELOCITY;
    - at the end every note is closed (hence the last event is a NOTE_OFF).

    [canonical_noteperf nb ms md evs]: BOOLEAN; tuples (shift, pitch, velocity bin, duration) with
    0 <= shift <= ms, 1 <= duration <= md, bin >= 1, nb >= 1 (for a non-empty list), and pitches non-decreasing among
    tuples that share a step (shift 0).
    No proofs here. *)
From Coq Require Import ZArith List Bool.
From NS Require Import Base.NoteSeq Gen.G07 Model.FqCommon Model.FqPerformance Model.RenderCommon.
Import ListNotations.
Local Open Scope Z_scope.

Definition snote_note (i pr : Z) (drum : bool) (x : snote) : note :=
  let '(q, s, e, v) := x in rnote q v i pr drum s e.

(** rendered and re-quantized notes of a Performance / MetricPerformance *)
Definition pf_rnotes (p : pf_params) (dv i pr : Z) (drum : bool) (evs : list pevent) : list note :=
  map (snote_note i pr drum) (pf_to_step_notes p dv evs).

Definition np_rnotes (p : pf_params) (i pr : Z) (drum : bool) (evs : list np_event) : list note :=
  map (snote_note i pr drum) (np_to_step_notes p evs).

(** * canonical Performance / MetricPerformance event lists *)
Inductive pf_prev := PStart | PShift (v : Z) | PVel | POn | POff.

Record pf_cst := mkPfCst {
  cs_step : Z;                       (* current step, relative *)
  cs_open : list (Z * Z);            (* open notes (pitch, start step), NOTE_ON order *)
  cs_vbin : Z;                       (* current velocity bin, 0 = none yet *)
  cs_prev : pf_prev;                 (* kind of the previous event *)
  cs_offkey : option (Z * Z);        (* (start, pitch) of the last note ended in this step *)
  cs_onp : option Z }.               (* pitch of the last NOTE_ON of this step *)

Fixpoint take_open (pitch : Z) (op : list (Z * Z)) : option ((Z * Z) * list (Z * Z)) :=
  match op with
  | [] => None
  | ((q, s) as x) :: r =>
      if q =? pitch then Some (x, r)
      else match take_open pitch r with Some (y, r') => Some (y, x :: r') | None => None end
  end.

Definition is_pvel (k : pf_prev) : bool := match k with PVel => true | _ => false end.

Definition key_lt (a : option (Z * Z)) (s q : Z) : bool :=
  match a with None => true | Some (s', q') => (s' <? s) || ((s' =? s) && (q' <? q)) end.

Definition pf_canon_step (nb ms : Z) (c : pf_cst) (e : pevent) : option pf_cst :=
  let '(ty, v) := e in
  if ty =? EV_NOTE_ON then
    if (negb (nb =? 0) && (cs_vbin c =? 0))
       || existsb (fun o => fst o =? v) (cs_open c)
       || negb (match cs_onp c with None => true | Some q => q <? v end)
    then None
    else Some (mkPfCst (cs_step c) (cs_open c ++ [(v, cs_step c)]) (cs_vbin c) POn (cs_offkey c) (Some v))
  else if ty =? EV_NOTE_OFF then
    if is_pvel (cs_prev c) || negb (match cs_onp c with None => true | Some _ => false end) then None
    else match take_open v (cs_open c) with
         | None => None
         | Some ((q, s), op') =>
             if key_lt (cs_offkey c) s q && (s <? cs_step c)
             then Some (mkPfCst (cs_step c) op' (cs_vbin c) POff (Some (s, q)) None)
             else None
         end
  else if ty =? EV_TIME_SHIFT then
    if is_pvel (cs_prev c) || negb ((1 <=? v) && (v <=? ms))
       || negb (match cs_prev c with PShift u => u =? ms | _ => true end)
    then None
    else Some (mkPfCst (cs_step c + v) (cs_open c) (cs_vbin c) (PShift v) None None)
  else if ty =? EV_VELOCITY then
    if (nb =? 0) || is_pvel (cs_prev c) || negb (1 <=? v) || (v =? cs_vbin c) then None
    else Some (mkPfCst (cs_step c) (cs_open c) v PVel (cs_offkey c) (cs_onp c))
  else None.

Fixpoint pf_canon_scan (nb ms : Z) (es : list pevent) (c : pf_cst) : option pf_cst :=
  match es with
  | [] => Some c
  | e :: r => match pf_canon_step nb ms c e with
              | Some c' => pf_canon_scan nb ms r c'
              | None => None
              end
  end.

Definition canonical_perf (nb ms : Z) (es : list pevent) : bool :=
  match pf_canon_scan nb ms es (mkPfCst 0 [] 0 PStart None None) with
  | Some c => is_nil (cs_open c)
              && match cs_prev c with PStart | POff => true | _ => false end
  | None => false
  end.

(** * the wider class: one pitch may sound twice at once.
    [_to_sequence] pairs NOTE_OFFs with the pending NOTE_ONs of their pitch first-in-first-out, so
    an event list denotes notes in which a later-started note of a pitch never ends before an
    earlier-started one (un-nested).  [canonical_perf_w] is [canonical_perf] with re-opening of an
    open pitch allowed and the two order rules non-strict: NOTE_ONs of a step in non-decreasing
    pitch order, NOTE_OFFs of a step in non-decreasing (start step, pitch) order of the notes the
    FIFO pairing gives them.  [no_nested_same_pitch]: BOOLEAN hypothesis on the quantized input of
    the extractor: no note of a pitch starts strictly later and ends strictly earlier than another
    note of that pitch (equal starts are harmless). *)
Definition key_le (a : option (Z * Z)) (s q : Z) : bool :=
  match a with None => true | Some (s', q') => (s' <? s) || ((s' =? s) && (q' <=? q)) end.

Definition pf_canon_step_w (nb ms : Z) (c : pf_cst) (e : pevent) : option pf_cst :=
  let '(ty, v) := e in
  if ty =? EV_NOTE_ON then
    if (negb (nb =? 0) && (cs_vbin c =? 0))
       || negb (match cs_onp c with None => true | Some q => q <=? v end)
    then None
    else Some (mkPfCst (cs_step c) (cs_open c ++ [(v, cs_step c)]) (cs_vbin c) POn (cs_offkey c) (Some v))
  else if ty =? EV_NOTE_OFF then
    if is_pvel (cs_prev c) || negb (match cs_onp c with None => true | Some _ => false end) then None
    else match take_open v (cs_open c) with
         | None => None
         | Some ((q, s), op') =>
             if key_le (cs_offkey c) s q && (s <? cs_step c)
             then Some (mkPfCst (cs_step c) op' (cs_vbin c) POff (Some (s, q)) None)
             else None
         end
  else if ty =? EV_TIME_SHIFT then
    if is_pvel (cs_prev c) || negb ((1 <=? v) && (v <=? ms))
       || negb (match cs_prev c with PShift u => u =? ms | _ => true end)
    then None
    else Some (mkPfCst (cs_step c + v) (cs_open c) (cs_vbin c) (PShift v) None None)
  else if ty =? EV_VELOCITY then
    if (nb =? 0) || is_pvel (cs_prev c) || negb (1 <=? v) || (v =? cs_vbin c) then None
    else Some (mkPfCst (cs_step c) (cs_open c) v PVel (cs_offkey c) (cs_onp c))
  else None.

Fixpoint pf_canon_scan_w (nb ms : Z) (es : list pevent) (c : pf_cst) : option pf_cst :=
  match es with
  | [] => Some c
  | e :: r => match pf_canon_step_w nb ms c e with
              | Some c' => pf_canon_scan_w nb ms r c'
              | None => None
              end
  end.

Definition canonical_perf_w (nb ms : Z) (es : list pevent) : bool :=
  match pf_canon_scan_w nb ms es (mkPfCst 0 [] 0 PStart None None) with
  | Some c => is_nil (cs_open c)
              && match cs_prev c with PStart | POff => true | _ => false end
  | None => false
  end.

Definition no_nested_same_pitch (l : list note) : bool :=
  forallb (fun a => forallb (fun b =>
    negb ((n_pitch a =? n_pitch b) && (n_qstart a <? n_qstart b) && (n_qend b <? n_qend a))) l) l.

(** * canonical NotePerformance tuple lists *)
Fixpoint np_canon_scan (nb ms md : Z) (evs : list np_event) (prev : option Z) : bool :=
  match evs with
  | [] => true
  | (sh, q, b, du) :: r =>
      (1 <=? nb) && (0 <=? sh) && (sh <=? ms) && (1 <=? du) && (du <=? md) && (1 <=? b)
      && (if sh =? 0 then match prev with Some pq => pq <=? q | None => true end else true)
      && np_canon_scan nb ms md r (Some q)
  end.

Definition canonical_noteperf (nb ms md : Z) (evs : list np_event) : bool :=
  np_canon_scan nb ms md evs None.
