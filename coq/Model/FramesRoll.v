(** Model/FramesRoll.v — executable model of the frame-pianoroll conversions of
    note_seq/sequences_lib.py (property C18):

      sequence_to_pianoroll            (float frame arithmetic + painting)
      pianoroll_to_note_sequence       (run-length decoder over boolean matrices)
      pianoroll_onsets_to_note_sequence

    Floats are Coq primitive floats (binary64 = CPython's float), bit exact.
    Matrices are lists of rows (time major), a row is a list over pitches.
    No proofs here.

    Restructurings with respect to the Python text (both observationally equal
    to it and exercised by the correspondence run):
      * sequence_to_pianoroll's single loop over the notes is split into one
        fold per output array plus a fold that finds the first exception (the
        arrays do not depend on each other; an exception discards all of them);
      * the decoder first emits (pitch, start_frame, end_frame) triples and
        then applies [end_pitch]'s minimum-duration test to each triple (the
        test does not influence the decoder's state: the Python code deletes
        pitch_start_step[pitch] whether or not the note is kept).
    Not modelled: velocity_values / _unscale_velocity (float32 arithmetic),
    non-finite or negative cell values of the input matrices (cells are
    booleans = Python truthiness of the cell). *)
From Coq Require Import ZArith List Bool.
From Coq Require Import PrimFloat FloatOps.
From NS Require Import Base.FloatBridge Gen.G18.
Import ListNotations.
Local Open Scope Z_scope.

Notation flt := PrimFloat.float.

(** ** Float helpers *)
Definition fz (z : Z) : flt := f_of_Z z.                       (* int -> float, exact below 2^53 *)
Definition gt0 (x : flt) : bool := PrimFloat.ltb zero x.       (* x > 0.0 *)
Definition fmin (a b : flt) : flt := if PrimFloat.ltb b a then b else a.   (* Python min(a, b) *)
Definition f1000 : flt := 1000%float.

(** ** frames_from_times (sequences_lib.py:1833-1852) *)
Definition sframe (fps t : flt) : Z := trunc (t * fps).        (* int(t * fps) *)
Definition eframe (fps t : flt) : Z := fceil (t * fps).        (* int(math.ceil(t * fps)) *)

Definition frames_from_times (fps occ s e : flt) : Z * Z :=
  let sf0 := sframe fps s in
  let socc := (fz (sf0 + 1) - s * fps)%float in
  let sf := if gt0 occ && PrimFloat.ltb socc occ then sf0 + 1 else sf0 in
  let ef0 := eframe fps e in
  let eocc := ((e * fps - fz sf) - one)%float in
  let ef := if gt0 occ && PrimFloat.ltb eocc occ then ef0 - 1 else ef0 in
  (sf, Z.max (sf + 1) ef).

(** number of rows of every roll: int(total_time * fps + 1) *)
Definition roll_rows (fps total : flt) : Z := trunc (total * fps + one).

(** ** Python slice clamping on an axis of length n: a[s:e] touches lo <= i < hi *)
Definition py_idx (n i : Z) : Z := if i <? 0 then Z.max (i + n) 0 else Z.min i n.

(** ** Matrices *)
Fixpoint set_nth {A} (p : nat) (v : A) (l : list A) : list A :=
  match l, p with
  | [], _ => []
  | _ :: r, O => v :: r
  | x :: r, S p' => x :: set_nth p' v r
  end.

(* rows lo <= i < hi get column p set to (f i) *)
Fixpoint paint_from {A} (i lo hi : Z) (p : nat) (f : Z -> A) (m : list (list A)) : list (list A) :=
  match m with
  | [] => []
  | row :: r =>
      (if (lo <=? i) && (i <? hi) then set_nth p (f i) row else row)
        :: paint_from (i + 1) lo hi p f r
  end.

(* m[s:e, p] = f(row index), Python slice semantics *)
Definition paint {A} (m : list (list A)) (s e : Z) (p : nat) (f : Z -> A) : list (list A) :=
  let n := Z.of_nat (length m) in paint_from 0 (py_idx n s) (py_idx n e) p f m.

Definition blank {A} (rows cols : Z) (v : A) : list (list A) :=
  repeat (repeat v (Z.to_nat cols)) (Z.to_nat rows).

(** ** sequence_to_pianoroll *)
Record s2p_cfg := {
  c_fps : flt; c_occ : flt;
  c_min_pitch : Z; c_max_pitch : Z; c_max_vel : Z;
  c_blank : bool;                 (* add_blank_frame_before_onset *)
  c_window : Z;                   (* onset_window *)
  c_onset_len_ms : flt; c_offset_len_ms : flt;
  c_mode : Z;                     (* 0 = 'window', 1 = 'length_ms', other = unknown *)
  c_delay_ms : flt;
  c_overlap : bool;               (* onset_overlap *)
  c_total : flt                   (* sequence.total_time *)
}.

Record snote := { n_pitch : Z; n_vel : Z; n_start : flt; n_end : flt }.

(* sorted(notes, key=start_time): stable insertion sort *)
Fixpoint ins_note (x : snote) (l : list snote) : list snote :=
  match l with
  | [] => [x]
  | y :: r => if PrimFloat.leb (n_start x) (n_start y) then x :: l else y :: ins_note x r
  end.
Definition sort_notes (l : list snote) : list snote := fold_right ins_note [] l.

Definition in_range (c : s2p_cfg) (n : snote) : bool :=
  negb ((n_pitch n <? c_min_pitch c) || (c_max_pitch c <? n_pitch n)).

Definition rows_of (c : s2p_cfg) : Z := roll_rows (c_fps c) (c_total c).
Definition cols_of (c : s2p_cfg) : Z := c_max_pitch c - c_min_pitch c + 1.

(* All frame numbers the loop body computes for one note. *)
Record nframes := {
  f_start : Z; f_end : Z;           (* after the onset_overlap adjustment *)
  f_on_s : Z; f_on_e : Z;
  f_off_s : Z; f_off_e : Z
}.

Definition fft (c : s2p_cfg) : flt -> flt -> Z * Z := frames_from_times (c_fps c) (c_occ c).

(* start_frame, end_frame = frames_from_times(note.start_time, note.end_time) *)
Definition main_frames (c : s2p_cfg) (n : snote) : Z * Z := fft c (n_start n) (n_end n).

(* onset_start_frame, onset_end_frame as computed by the two onset modes, before the clamp *)
Definition onset_frames_raw (c : s2p_cfg) (n : snote) : Z * Z :=
  let delay := (c_delay_ms c / f1000)%float in
  let ost := (n_start n + delay)%float in
  let oet := (n_end n + delay)%float in
  if c_mode c =? 0 then
    let w := fst (fft c ost oet) in
    (Z.max 0 (w - c_window c), Z.min (rows_of c) (w + c_window c + 1))
  else
    fft c ost (fmin oet (ost + c_onset_len_ms c / f1000)%float).

(* repo commit 05c4d11: a negative onset_delay_ms can move the onset before the start of the roll;
   both bounds are clamped at 0 so that the slice assignments do not wrap around *)
Definition onset_frames (c : s2p_cfg) (n : snote) : Z * Z :=
  let r := onset_frames_raw c n in (Z.max 0 (fst r), Z.max 0 (snd r)).

(* offset_start_frame, offset_end_frame *)
Definition offset_frames (c : s2p_cfg) (n : snote) : Z * Z :=
  let offl := (c_offset_len_ms c / f1000)%float in
  let fst_ := fmin (n_end n) (c_total c - offl)%float in
  let fe := fft c fst_ (fst_ + offl)%float in
  (fst fe, Z.max (snd fe) (fst fe + 1)).

Definition note_frames (c : s2p_cfg) (n : snote) : nframes :=
  let m := main_frames c n in
  let on := onset_frames c n in
  let off := offset_frames c n in
  {| f_start := if c_overlap c then fst m else snd on;
     f_end := if c_overlap c then snd m else Z.max (snd on + 1) (snd m);
     f_on_s := fst on; f_on_e := snd on; f_off_s := fst off; f_off_e := snd off |}.

Definition col_of (c : s2p_cfg) (n : snote) : nat := Z.to_nat (n_pitch n - c_min_pitch c).

(* the notes the loop paints, in painting order *)
Definition painted_notes (c : s2p_cfg) (notes : list snote) : list snote :=
  filter (in_range c) (sort_notes notes).

(* Exceptions: 1 = ValueError, 2 = IndexError. *)
Definition weights_shape_ok (rows : Z) (fr : nframes) : bool :=
  let len := Z.max 0 (f_end fr - f_on_e fr) in
  let sl := Z.max 0 (py_idx rows (f_end fr) - py_idx rows (f_on_e fr)) in
  (sl =? len) || (len =? 1).

Definition note_error (c : s2p_cfg) (n : snote) : option Z :=
  if negb ((c_mode c =? 0) || (c_mode c =? 1)) then Some 1
  else
    let fr := note_frames c n in
    if c_max_vel c <? n_vel n then Some 1
    else if negb (weights_shape_ok (rows_of c) fr) then Some 1
    else if c_blank c && (0 <? f_start fr) && (rows_of c <=? f_start fr - 1) then Some 2
    else None.

Fixpoint first_error (c : s2p_cfg) (l : list snote) : option Z :=
  match l with
  | [] => None
  | n :: r => match note_error c n with Some e => Some e | None => first_error c r end
  end.

(* active roll *)
Definition paint_active (c : s2p_cfg) (m : list (list bool)) (n : snote) : list (list bool) :=
  let fr := note_frames c n in
  let m1 := paint m (f_start fr) (f_end fr) (col_of c n) (fun _ => true) in
  if c_blank c && (0 <? f_start fr)
  then paint m1 (f_start fr - 1) (f_start fr) (col_of c n) (fun _ => false)
  else m1.
Definition active_roll (c : s2p_cfg) (notes : list snote) : list (list bool) :=
  fold_left (paint_active c) (painted_notes c notes) (blank (rows_of c) (cols_of c) false).

Definition onset_roll (c : s2p_cfg) (notes : list snote) : list (list bool) :=
  fold_left (fun m n => let fr := note_frames c n in
                        paint m (f_on_s fr) (f_on_e fr) (col_of c n) (fun _ => true))
            (painted_notes c notes) (blank (rows_of c) (cols_of c) false).

Definition offset_roll (c : s2p_cfg) (notes : list snote) : list (list bool) :=
  fold_left (fun m n => let fr := note_frames c n in
                        paint m (f_off_s fr) (f_off_e fr) (col_of c n) (fun _ => true))
            (painted_notes c notes) (blank (rows_of c) (cols_of c) false).

(* velocity roll: the cell holds the integer velocity v of the last painter;
   the Python cell is float32(v / max_velocity) (0 = never painted). *)
Definition velocity_roll (c : s2p_cfg) (notes : list snote) : list (list Z) :=
  fold_left (fun m n => let fr := note_frames c n in
                        paint m (f_start fr) (f_end fr) (col_of c n) (fun _ => n_vel n))
            (painted_notes c notes) (blank (rows_of c) (cols_of c) 0).

(* weights roll: code 0 = 1.0 (untouched / blank frame), code k >= 1 = onset_upweight / k *)
Definition paint_weights (c : s2p_cfg) (m : list (list Z)) (n : snote) : list (list Z) :=
  let fr := note_frames c n in
  let m1 := paint m (f_on_s fr) (f_on_e fr) (col_of c n) (fun _ => 1) in
  let len := Z.max 0 (f_end fr - f_on_e fr) in
  let lo := py_idx (Z.of_nat (length m)) (f_on_e fr) in
  let m2 := paint m1 (f_on_e fr) (f_end fr) (col_of c n)
                  (fun i => if len =? 1 then 1 else i - lo + 1) in
  if c_blank c && (0 <? f_start fr)
  then paint m2 (f_start fr - 1) (f_start fr) (col_of c n) (fun _ => 0)
  else m2.
Definition weights_roll (c : s2p_cfg) (notes : list snote) : list (list Z) :=
  fold_left (paint_weights c) (painted_notes c notes) (blank (rows_of c) (cols_of c) 0).

(* control changes: (time, number, value); result = association list (frame, number) -> value + 1 *)
Definition cc_frame (c : s2p_cfg) (t : flt) : Z :=
  fst (fft c t zero).

Definition cc_key_eqb (a b : Z * Z) : bool := (fst a =? fst b) && (snd a =? snd b).

Fixpoint cc_fold (c : s2p_cfg) (ccs : list (flt * Z * Z)) (acc : list (Z * Z * Z)) : option (list (Z * Z * Z)) :=
  match ccs with
  | [] => Some acc
  | (t, num, val) :: r =>
      let fr := cc_frame c t in
      let rows := rows_of c in
      if fr <? rows then
        if fr <? - rows then None          (* IndexError *)
        else
          let fr' := if fr <? 0 then fr + rows else fr in
          cc_fold c r ((fr', num, val + 1)
                         :: filter (fun e => negb (cc_key_eqb (fst e) (fr', num))) acc)
      else cc_fold c r acc
  end.

(* sorted(control_changes, key=time): stable insertion sort (repo commit 9befe56: the latest change of a frame wins) *)
Fixpoint ins_cc (x : flt * Z * Z) (l : list (flt * Z * Z)) : list (flt * Z * Z) :=
  match l with
  | [] => [x]
  | y :: r => if PrimFloat.leb (fst (fst x)) (fst (fst y)) then x :: l else y :: ins_cc x r
  end.
Definition sort_ccs (l : list (flt * Z * Z)) : list (flt * Z * Z) := fold_right ins_cc [] l.

Record s2p_out := {
  o_rows : Z;
  o_active : list (list bool); o_onsets : list (list bool); o_offsets : list (list bool);
  o_vel : list (list Z); o_weights : list (list Z);
  o_cc : list (Z * Z * Z)
}.

(* result: inl error code | inr rolls *)
Definition s2p (c : s2p_cfg) (notes : list snote) (ccs : list (flt * Z * Z)) : Z + s2p_out :=
  match first_error c (painted_notes c notes) with
  | Some e => inl e
  | None =>
      match cc_fold c (sort_ccs ccs) [] with
      | None => inl 2
      | Some cc =>
          inr {| o_rows := rows_of c;
                 o_active := active_roll c notes; o_onsets := onset_roll c notes;
                 o_offsets := offset_roll c notes; o_vel := velocity_roll c notes;
                 o_weights := weights_roll c notes;
                 o_cc := filter (fun e => negb (snd e =? 0)) cc |}
      end
  end.

(** ** pianoroll_to_note_sequence: the run-length decoder (pure lists) *)

(* One cell of the frame loop: [act] = the (merged) frame cell, [on]/[pon] = the
   onset prediction in this / the previous frame, [st] = pitch_start_step.get(pitch).
   Returns the new state and the (start, end) span handed to end_pitch, if any. *)
Definition cell_step (has_on : bool) (i : Z) (act on pon : bool) (st : option Z)
  : option Z * option (Z * Z) :=
  if act then
    match st with
    | None => if has_on then (if on then (Some i, None) else (None, None)) else (Some i, None)
    | Some s => if has_on && on && negb pon then (Some i, Some (s, i)) else (Some s, None)
    end
  else
    match st with
    | Some s => (None, Some (s, i))
    | None => (None, None)
    end.

Definition cell := (bool * bool * bool)%type.   (* act, on, previous on *)

Fixpoint row_step (has_on : bool) (i p : Z) (cells : list cell) (sts : list (option Z))
  : list (option Z) * list (Z * Z * Z) :=
  match cells, sts with
  | (a, o, po) :: cr, st :: sr =>
      let '(st', em) := cell_step has_on i a o po st in
      let '(sr', ems) := row_step has_on i (p + 1) cr sr in
      (st' :: sr', match em with Some (s, e) => (p, s, e) :: ems | None => ems end)
  | _, _ => ([], [])
  end.

Fixpoint frames_loop (has_on : bool) (i : Z) (rows : list (list cell)) (sts : list (option Z))
  : list (Z * Z * Z) :=
  match rows with
  | [] => []
  | r :: rs => let '(sts', em) := row_step has_on i 0 r sts in
               em ++ frames_loop has_on (i + 1) rs sts'
  end.

(* element-wise helpers on rows *)
Fixpoint zip3 (a b c : list bool) : list cell :=
  match a, b, c with
  | x :: a', y :: b', z :: c' => (x, y, z) :: zip3 a' b' c'
  | _, _, _ => []
  end.
Fixpoint map2 {A B C} (f : A -> B -> C) (a : list A) (b : list B) : list C :=
  match a, b with x :: a', y :: b' => f x y :: map2 f a' b' | _, _ => [] end.

Definition width (m : list (list bool)) : nat := length (hd [] m).
Definition zrow (w : nat) : list bool := repeat false w.

(* np.append(m, [zeros], 0) *)
Definition app_silent (m : list (list bool)) : list (list bool) := m ++ [zrow (width m)].

(* The effective cells the loop sees.
   frames/onsets/offsets: the caller's arrays (onsets/offsets optional). *)
Definition merged (frames : list (list bool)) (onsets offsets : option (list (list bool)))
  : bool * list (list cell) :=
  let f0 := app_silent frames in
  let w := width frames in
  let '(has_on, om) := match onsets with
                       | Some o => (true, app_silent o)
                       | None => (false, map (fun _ => zrow w) f0)
                       end in
  let f1 := if has_on then map2 (map2 orb) f0 om else f0 in
  let f2 := match offsets with
            | Some off => map2 (map2 (fun a b => a && negb b)) f1 (app_silent off)
            | None => f1
            end in
  (* onset_predictions[i - 1] for i = 0 is the last row (Python index -1): the appended zeros *)
  let prev := last om (zrow w) :: removelast om in
  (has_on, map2 (fun fr op => zip3 fr (fst op) (snd op)) f2 (combine om prev)).

(* all (pitch index, start frame, end frame) spans handed to end_pitch, in call order *)
Definition decode_spans (frames : list (list bool)) (onsets offsets : option (list (list bool)))
  : list (Z * Z * Z) :=
  let '(has_on, cells) := merged frames onsets offsets in
  frames_loop has_on 0 cells (repeat None (width frames)).

(* end_pitch: times and the minimum-duration test *)
Definition frame_len (fps : flt) : flt := (one / fps)%float.          (* 1 / frames_per_second *)
Definition ftime (fps : flt) (i : Z) : flt := (fz i * frame_len fps)%float.

Record dnote := { d_pitch : Z; d_start : flt; d_end : flt }.

Definition end_pitch (fps min_dur_ms : flt) (min_midi_pitch : Z) (sp : Z * Z * Z) : option dnote :=
  let '(p, s, e) := sp in
  let st := ftime fps s in
  let et := ftime fps e in
  if PrimFloat.leb min_dur_ms ((et - st) * f1000)%float
  then Some {| d_pitch := p + min_midi_pitch; d_start := st; d_end := et |}
  else None.

Fixpoint filter_map {A B} (f : A -> option B) (l : list A) : list B :=
  match l with
  | [] => []
  | x :: r => match f x with Some y => y :: filter_map f r | None => filter_map f r end
  end.

Definition p2s (fps min_dur_ms : flt) (min_midi_pitch : Z)
           (frames : list (list bool)) (onsets offsets : option (list (list bool)))
  : flt * list dnote :=
  (* total_time = len(frames incl. the appended one) * frame_length_seconds *)
  ((fz (Z.of_nat (length frames) + 1) * frame_len fps)%float,
   filter_map (end_pitch fps min_dur_ms min_midi_pitch) (decode_spans frames onsets offsets)).

(** ** pianoroll_onsets_to_note_sequence *)
Fixpoint row_cells (i p : Z) (row : list bool) : list (Z * Z) :=
  match row with
  | [] => []
  | b :: r => if b then (i, p) :: row_cells i (p + 1) r else row_cells i (p + 1) r
  end.
Fixpoint nonzero_cells (i : Z) (m : list (list bool)) : list (Z * Z) :=
  match m with
  | [] => []
  | r :: rs => row_cells i 0 r ++ nonzero_cells (i + 1) rs
  end.

Definition onsets2s (fps dur : flt) (min_midi_pitch : Z) (onsets : list (list bool)) : flt * list dnote :=
  ((fz (Z.of_nat (length onsets)) * frame_len fps + dur)%float,
   map (fun ip => let st := ftime fps (fst ip) in
                  {| d_pitch := snd ip + min_midi_pitch; d_start := st; d_end := (st + dur)%float |})
       (nonzero_cells 0 onsets)).

(** ** The grid round trip: roll -> notes -> roll (defaults: occupancy 0, window
    mode, no blank frame, overlap; constants regenerated from the code in Gen/G18.v) *)
Definition grid_cfg (fps total : flt) (mn cols : Z) : s2p_cfg :=
  {| c_fps := fps; c_occ := zero; c_min_pitch := mn; c_max_pitch := mn + cols - 1; c_max_vel := MAX_MIDI_VELOCITY;
     c_blank := false; c_window := ONSET_WINDOW; c_onset_len_ms := zero; c_offset_len_ms := zero;
     c_mode := 0; c_delay_ms := zero; c_overlap := true; c_total := total |}.

Definition snote_of (v : Z) (d : dnote) : snote :=
  {| n_pitch := d_pitch d; n_vel := v; n_start := d_start d; n_end := d_end d |}.

Definition grid_roundtrip (fps : flt) (mn : Z) (frames : list (list bool)) : list (list bool) :=
  let '(total, notes) := p2s fps zero mn frames None None in
  active_roll (grid_cfg fps total mn (Z.of_nat (width frames))) (map (snote_of DEFAULT_DECODE_VELOCITY) notes).

(* frame index arithmetic is exact at frame i *)
Definition frame_exact (fps : flt) (i : Z) : bool :=
  (sframe fps (ftime fps i) =? i) && (eframe fps (ftime fps i) =? i).
