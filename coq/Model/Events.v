(** Model/Events.v — executable model of note_seq/events_lib.py
    (SimpleEventSequence) and of its subclasses Melody (melodies_lib.py),
    DrumTrack (drums_lib.py), ChordProgression (chords_lib.py) and of the
    LeadSheet wrapper (lead_sheets_lib.py), as state machines over edit
    operations.  No proofs here.

    The model follows the code pass by pass.  It follows the code *with the
    three repairs notes/C17-fix-{1,2,3}.diff applied* (see notes/C17.md):
      fix-1  set_length(.., from_left=True) deletes  events[:len - steps]
             (the tree without it deletes events[0:-steps], i.e. nothing for
             steps = 0);
      fix-2  slicing offsets start_step by key.indices(len)[0], the clamped
             non-negative start (the tree without it adds the raw key.start);
      fix-3  LeadSheet.__iter__ uses zip and LeadSheet.__getitem__ returns a
             LeadSheet for a slice.
    Python exceptions are explicit outcomes. *)
From Coq Require Import ZArith List Bool.
From NS Require Import Gen.G17.
Import ListNotations.
Local Open Scope Z_scope.

(* ------------------------------------------------------------------ *)
(** * Python list semantics used by the anchored code *)

Definition zlen {A} (l : list A) : Z := Z.of_nat (length l).

(** [slice.indices(len)] for a unit-step slice: negative bounds count from
    the end, everything is clamped into [0, len]. *)
Definition clamp_index (len i : Z) : Z :=
  if i <? 0 then Z.max 0 (i + len) else Z.min i len.
Definition slice_lo (len : Z) (a : option Z) : Z :=
  match a with None => 0 | Some i => clamp_index len i end.
Definition slice_hi (len : Z) (b : option Z) : Z :=
  match b with None => len | Some i => clamp_index len i end.

(** [l[a:b]] *)
Definition py_slice {A} (l : list A) (a b : option Z) : list A :=
  let n := zlen l in
  let lo := slice_lo n a in
  let hi := slice_hi n b in
  firstn (Z.to_nat (hi - lo)) (skipn (Z.to_nat lo) l).

(** [del l[a:b]] *)
Definition py_del_slice {A} (l : list A) (a b : option Z) : list A :=
  let n := zlen l in
  let lo := slice_lo n a in
  let hi := slice_hi n b in
  firstn (Z.to_nat lo) l ++ skipn (Z.to_nat (Z.max lo hi)) l.

(** [l[i]] with IndexError as [None] *)
Definition py_index {A} (l : list A) (i : Z) : option A :=
  let n := zlen l in
  let j := if i <? 0 then i + n else i in
  if (0 <=? j) && (j <? n) then nth_error l (Z.to_nat j) else None.

(** [l[n] = x] for an index known to be in range (out of range: unchanged) *)
Fixpoint set_nth {A} (n : nat) (x : A) (l : list A) : list A :=
  match l, n with
  | [], _ => []
  | _ :: r, O => x :: r
  | y :: r, S m => y :: set_nth m x r
  end.

(** [list(range(a, b))] *)
Definition py_range (a b : Z) : list Z :=
  map (fun i => a + Z.of_nat i) (seq 0 (Z.to_nat (b - a))).

(* ------------------------------------------------------------------ *)
(** * SimpleEventSequence, generic in the event type and in what the
      subclasses override *)

Inductive outcome : Type :=
| Done
| ValueError              (* Melody / DrumTrack event validation *)
| MismatchError           (* lead_sheets_lib.MelodyChordsMismatchError *)
| NotImplementedError     (* from_left on Pianoroll / Performance *)
| AssertionError.         (* `assert self.num_steps == steps` *)

Section Simple.
  Variable E : Type.
  (** what a subclass overrides *)
  Variable class_pad : option E.      (* Some p: __init__ discards the caller's pad_event and uses p *)
  Variable valid : E -> bool.         (* validation in append / _from_event_list *)
  Variable clean : list E -> list E.  (* normalisation in _from_event_list *)
  Variable fill : option E.           (* fill_event passed to increase_resolution *)
  Variable extend_fix : nat -> list E -> list E.
                                      (* post-pass of set_length when padding on the right; gets old_len *)

  Record st : Type := mkst {
    events : list E;   (* _events *)
    start : Z;         (* _start_step *)
    stop : Z;          (* _end_step *)
    spb : Z;           (* _steps_per_bar *)
    spq : Z;           (* _steps_per_quarter *)
    pad : E            (* _pad_event *)
  }.

  Definition eff_pad (p : E) : E := match class_pad with Some q => q | None => p end.

  (** [type(self)(pad_event=p, events=es, start_step=s0, steps_per_bar=sb,
      steps_per_quarter=sq)]; [None] = ValueError from _from_event_list. *)
  Definition init (p : E) (es : option (list E)) (s0 sb sq : Z) : option st :=
    match es with
    | None => Some (mkst [] s0 s0 sb sq (eff_pad p))
    | Some es =>
        if forallb valid es then
          let ev := clean es in
          Some (mkst ev s0 (s0 + zlen ev) sb sq (eff_pad p))
        else None
    end.

  (** [_reset] *)
  Definition reset (s : st) : st :=
    mkst [] 0 0 DEFAULT_STEPS_PER_BAR DEFAULT_STEPS_PER_QUARTER (pad s).

  Definition append (s : st) (e : E) : st * outcome :=
    if valid e then
      (mkst (events s ++ [e]) (start s) (stop s + 1) (spb s) (spq s) (pad s), Done)
    else (s, ValueError).

  (** SimpleEventSequence.set_length *)
  Definition base_set_length (s : st) (n : Z) (from_left : bool) : st :=
    let len := zlen (events s) in
    let ev :=
      if len <? n then
        if from_left then repeat (pad s) (Z.to_nat (n - len)) ++ events s
        else events s ++ repeat (pad s) (Z.to_nat (n - len))
      else
        if from_left then py_del_slice (events s) None (Some (len - n))
        else py_del_slice (events s) (Some n) None in
    if from_left then mkst ev (stop s - n) (stop s) (spb s) (spq s) (pad s)
    else mkst ev (start s) (start s + n) (spb s) (spq s) (pad s).

  (** set_length as the subclass sees it (Melody adds a pass after the base
      method when the sequence grew on the right). *)
  Definition set_length (s : st) (n : Z) (from_left : bool) : st :=
    let old_len := length (events s) in
    let s' := base_set_length s n from_left in
    if (zlen (events s) <? n) && negb from_left then
      mkst (extend_fix old_len (events s')) (start s') (stop s') (spb s') (spq s') (pad s')
    else s'.

  Definition inc_fill (k : Z) (e : E) : list E :=
    match fill with
    | None => repeat e (Z.to_nat k)
    | Some f => e :: repeat f (Z.to_nat (k - 1))
    end.

  Definition increase_resolution (s : st) (k : Z) : st :=
    mkst (flat_map (inc_fill k) (events s)) (start s * k) (stop s * k) (spb s * k) (spq s * k) (pad s).

  (** [self[a:b]] (unit step) *)
  Definition slice (s : st) (a b : option Z) : option st :=
    init (pad s) (Some (py_slice (events s) a b))
         (start s + slice_lo (zlen (events s)) a) (spb s) (spq s).

  Definition deepcopy (s : st) : option st :=
    init (pad s) (Some (events s)) (start s) (spb s) (spq s).

  (** observables *)
  Definition iter (s : st) : list E := events s.
  Definition len (s : st) : Z := zlen (events s).
  Definition getitem (s : st) (i : Z) : option E := py_index (events s) i.
  Definition steps (s : st) : list Z := py_range (start s) (stop s).

  (** edit operations; [OSlice]/[ODeepcopy]/[OReinit] replace the object by
      the new one *)
  Inductive op : Type :=
  | OAppend (e : E)
  | OSetLength (n : Z) (from_left : bool)
  | OSlice (a b : option Z)
  | OIncRes (k : Z)
  | ODeepcopy
  | OReinit (p : E) (es : option (list E)) (s0 sb sq : Z)
  | OReset.

  Definition of_opt (s : st) (o : option st) : st * outcome :=
    match o with Some s' => (s', Done) | None => (s, ValueError) end.

  Definition step (s : st) (o : op) : st * outcome :=
    match o with
    | OAppend e => append s e
    | OSetLength n fl => (set_length s n fl, Done)
    | OSlice a b => of_opt s (slice s a b)
    | OIncRes k => (increase_resolution s k, Done)
    | ODeepcopy => of_opt s (deepcopy s)
    | OReinit p es s0 sb sq => of_opt s (init p es s0 sb sq)
    | OReset => (reset s, Done)
    end.

  Definition run_ops (s : st) (ops : list op) : st :=
    fold_left (fun s o => fst (step s o)) ops s.

  (** the trace the correspondence check compares: state after every op *)
  Fixpoint trace (s : st) (ops : list op) : list (st * outcome) :=
    match ops with
    | [] => []
    | o :: r => let so := step s o in so :: trace (fst so) r
    end.
End Simple.

Arguments mkst {E}.
Arguments events {E}. Arguments start {E}. Arguments stop {E}.
Arguments spb {E}. Arguments spq {E}. Arguments pad {E}.
Arguments iter {E}. Arguments len {E}. Arguments getitem {E}. Arguments steps {E}.
Arguments reset {E}.
Arguments OAppend {E}. Arguments OSetLength {E}. Arguments OSlice {E}.
Arguments OIncRes {E}. Arguments ODeepcopy {E}. Arguments OReinit {E}. Arguments OReset {E}.

(** [increase_resolution(k, fill_event=f)] is public on the classes that
    inherit the base method (SimpleEventSequence, ChordProgression): there the
    fill event is a per-call argument.  A history with explicit fill events is
    a list of (explicit fill or None, op); None means the class default. *)
Definition step_f {E} (class_pad : option E) (valid : E -> bool) (clean : list E -> list E)
           (fill : option E) (extend_fix : nat -> list E -> list E)
           (s : st E) (fo : option E * op E) : st E * outcome :=
  step E class_pad valid clean (match fst fo with Some f => Some f | None => fill end) extend_fix s (snd fo).

Fixpoint trace_f {E} (class_pad : option E) valid clean (fill : option E) extend_fix
         (s : st E) (ops : list (option E * op E)) : list (st E * outcome) :=
  match ops with
  | [] => []
  | o :: r => let so := step_f class_pad valid clean fill extend_fix s o in
              so :: trace_f class_pad valid clean fill extend_fix (fst so) r
  end.

(* ------------------------------------------------------------------ *)
(** * The two repaired methods as they are in a tree WITHOUT
      notes/C17-fix-1.diff and notes/C17-fix-2.diff.  Only the [_refuted]
      witnesses in Proofs/Events.v use them; [run] does not. *)

(** set_length: `del self._events[0:-steps]` when shrinking from the left *)
Definition base_set_length_unfixed {E} (s : st E) (n : Z) (from_left : bool) : st E :=
  let len := zlen (events s) in
  let ev :=
    if len <? n then
      if from_left then repeat (pad s) (Z.to_nat (n - len)) ++ events s
      else events s ++ repeat (pad s) (Z.to_nat (n - len))
    else
      if from_left then py_del_slice (events s) (Some 0) (Some (- n))
      else py_del_slice (events s) (Some n) None in
  if from_left then mkst ev (stop s - n) (stop s) (spb s) (spq s) (pad s)
  else mkst ev (start s) (start s + n) (spb s) (spq s) (pad s).

(** __getitem__(slice): `start_step=self.start_step + (key.start or 0)` *)
Definition slice_start_unfixed {E} (s : st E) (a : option Z) : Z :=
  start s + match a with Some i => i | None => 0 end.

(* ------------------------------------------------------------------ *)
(** * The four concrete classes *)

Definition no_fix {E} (_ : nat) (l : list E) : list E := l.

(** [Cls()] / [SimpleEventSequence(pad_event=p)]: the empty object every
    history starts from *)
Definition empty_st {E} (p : E) : st E :=
  mkst [] 0 0 DEFAULT_STEPS_PER_BAR DEFAULT_STEPS_PER_QUARTER p.

(** SimpleEventSequence itself: events are opaque (integers on the wire). *)
Module Plain.
  Definition valid (_ : Z) : bool := true.
  Definition init := init Z None valid (fun l => l).
  Definition step := step Z None valid (fun l => l) None no_fix.
  Definition trace := trace Z None valid (fun l => l) None no_fix.
  Definition run_ops := run_ops Z None valid (fun l => l) None no_fix.
End Plain.

(** ChordProgression: pad NO_CHORD, nothing else overridden (events are
    strings; the harness numbers them, NO_CHORD is [NO_CHORD_CODE]). *)
Module Chords.
  Definition valid (_ : Z) : bool := true.
  Definition init := init Z (Some NO_CHORD_CODE) valid (fun l => l).
  Definition step := step Z (Some NO_CHORD_CODE) valid (fun l => l) None no_fix.
  Definition trace := trace Z (Some NO_CHORD_CODE) valid (fun l => l) None no_fix.
  Definition run_ops := run_ops Z (Some NO_CHORD_CODE) valid (fun l => l) None no_fix.
End Chords.

(** Melody *)
Module Melody.
  Definition valid (e : Z) : bool := (MIN_MELODY_EVENT <=? e) && (e <=? MAX_MELODY_EVENT).

  (** _from_event_list: NOTE_OFF / NO_EVENT before the first note become NO_EVENT *)
  Fixpoint clean (l : list Z) : list Z :=
    match l with
    | [] => []
    | e :: r =>
        if (e =? MELODY_NO_EVENT) || (e =? MELODY_NOTE_OFF) then MELODY_NO_EVENT :: clean r
        else l
    end.

  (** the backwards scan of Melody.set_length over events[old_len-1 .. 0],
      given most-recent-first: does a note sound into the padding? *)
  Fixpoint sustained_rev (l : list Z) : bool :=
    match l with
    | [] => false
    | e :: r =>
        if e =? MELODY_NOTE_OFF then false
        else if negb (e =? MELODY_NO_EVENT) then true
        else sustained_rev r
    end.

  Definition extend_fix (old_len : nat) (ev : list Z) : list Z :=
    if sustained_rev (rev (firstn old_len ev)) then set_nth old_len MELODY_NOTE_OFF ev else ev.

  Definition init := init Z (Some MELODY_NO_EVENT) valid clean.
  Definition step := step Z (Some MELODY_NO_EVENT) valid clean (Some MELODY_NO_EVENT) extend_fix.
  Definition trace := trace Z (Some MELODY_NO_EVENT) valid clean (Some MELODY_NO_EVENT) extend_fix.
  Definition run_ops := run_ops Z (Some MELODY_NO_EVENT) valid clean (Some MELODY_NO_EVENT) extend_fix.
  Definition set_length := set_length Z extend_fix.
End Melody.

(** DrumTrack: an event is a frozenset of pitches (a list on the wire). *)
Module Drums.
  Definition valid (e : list Z) : bool :=
    forallb (fun d => (MIN_MIDI_PITCH <=? d) && (d <=? MAX_MIDI_PITCH)) e.
  Definition init := init (list Z) (Some []) valid (fun l => l).
  Definition step := step (list Z) (Some []) valid (fun l => l) (Some []) no_fix.
  Definition trace := trace (list Z) (Some []) valid (fun l => l) (Some []) no_fix.
  Definition run_ops := run_ops (list Z) (Some []) valid (fun l => l) (Some []) no_fix.
End Drums.

(* ------------------------------------------------------------------ *)
(** * LeadSheet: a Melody and a ChordProgression edited in lock step *)

Module LeadSheet.
  Record ls : Type := mkls { mel : st Z; chd : st Z }.

  (** LeadSheet(melody, chords): _from_melody_and_chords *)
  Definition make (m c : st Z) : option ls :=
    if negb (len m =? len c) || negb (spb m =? spb c) || negb (spq m =? spq c)
       || negb (start m =? start c) || negb (stop m =? stop c)
    then None else Some (mkls m c).

  Definition empty : ls :=
    mkls (mkst [] 0 0 DEFAULT_STEPS_PER_BAR DEFAULT_STEPS_PER_QUARTER MELODY_NO_EVENT)
         (mkst [] 0 0 DEFAULT_STEPS_PER_BAR DEFAULT_STEPS_PER_QUARTER NO_CHORD_CODE).

  Inductive op : Type :=
  | LAppend (me ce : Z)
  | LSetLength (n : Z)                 (* LeadSheet.set_length has no from_left *)
  | LSlice (a b : option Z)
  | LIncRes (k : Z)
  | LDeepcopy
  | LReinit (mes : list Z) (ms msb msq : Z) (ces : list Z) (cs csb csq : Z)
  | LReset.

  Definition of_opt (s : ls) (o : option ls) : ls * outcome :=
    match o with Some s' => (s', Done) | None => (s, MismatchError) end.

  Definition step (s : ls) (o : op) : ls * outcome :=
    match o with
    | LAppend me ce =>
        match Melody.step (mel s) (OAppend me) with
        | (m', Done) => (mkls m' (fst (Chords.step (chd s) (OAppend ce))), Done)
        | (_, e) => (s, e)
        end
    | LSetLength n =>
        (mkls (fst (Melody.step (mel s) (OSetLength n false)))
              (fst (Chords.step (chd s) (OSetLength n false))), Done)
    | LSlice a b =>
        match Melody.step (mel s) (OSlice a b), Chords.step (chd s) (OSlice a b) with
        | (m', Done), (c', Done) => of_opt s (make m' c')
        | (_, Done), (_, e) => (s, e)
        | (_, e), _ => (s, e)
        end
    | LIncRes k =>
        (mkls (fst (Melody.step (mel s) (OIncRes k))) (fst (Chords.step (chd s) (OIncRes k))), Done)
    | LDeepcopy =>
        match Melody.step (mel s) ODeepcopy, Chords.step (chd s) ODeepcopy with
        | (m', Done), (c', Done) => of_opt s (make m' c')
        | (_, Done), (_, e) => (s, e)
        | (_, e), _ => (s, e)
        end
    | LReinit mes ms msb msq ces cs csb csq =>
        match Melody.init 0 (Some mes) ms msb msq, Chords.init 0 (Some ces) cs csb csq with
        | Some m, Some c => of_opt s (make m c)
        | _, _ => (s, ValueError)
        end
    | LReset => (empty, Done)
    end.

  Definition run_ops (s : ls) (ops : list op) : ls :=
    fold_left (fun s o => fst (step s o)) ops s.

  Fixpoint trace (s : ls) (ops : list op) : list (ls * outcome) :=
    match ops with
    | [] => []
    | o :: r => let so := step s o in so :: trace (fst so) r
    end.

  (** observables: everything is delegated to the melody except iteration and
      indexing, which pair the two streams *)
  Definition iter (s : ls) : list (Z * Z) := combine (events (mel s)) (events (chd s)).
  Definition len (s : ls) : Z := len (mel s).
  Definition getitem (s : ls) (i : Z) : option (Z * Z) :=
    match getitem (mel s) i, getitem (chd s) i with
    | Some m, Some c => Some (m, c)
    | _, _ => None
    end.
  Definition start (s : ls) : Z := start (mel s).
  Definition stop (s : ls) : Z := stop (mel s).
  Definition steps (s : ls) : list Z := steps (mel s).
End LeadSheet.
