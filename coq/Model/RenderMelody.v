(** Model/RenderMelody.v — melodies_lib.Melody.to_sequence at step level, and the canonical
    melodies (C06).

    [mel_render]: the loop of [to_sequence]: a pitch event (MIN_MIDI_PITCH..MAX_MIDI_PITCH) ends the
    sustained note and starts a new one; MELODY_NOTE_OFF ends the sustained note; every other
    value (MELODY_NO_EVENT, but also any out-of-range integer) does nothing; the end of the melody
    ends the sustained note.  Notes come out in order of their start (the order [notes.add()]
    creates them in).  [step] is absolute ([start_step] already added, as
    [sequence_start_time += self.start_step * seconds_per_step] does).

    [canonical_melody spb ss gap_bars pad_end s0 es]: BOOLEAN; the melodies
    [from_quantized_sequence(search_start_step=ss, gap_bars, pad_end)] can return for a sequence
    with [spb] steps per bar:
    - the empty melody has start_step 0;
    - otherwise: every event is NO_EVENT, NOTE_OFF or a MIDI pitch; start_step is [ss] plus a
      whole number of bars, not negative; the first event that is not NO_EVENT is a pitch and lies in
      the first bar; a NOTE_OFF occurs only while a note sounds (no leading / doubled NOTE_OFF);
      a pitch that follows the previous note's end by [d] steps has [d < gap_bars * spb]
      ([d = 0] for a note that is cut by the next one);
    - the end: without [pad_end] the last note is sustained to the end of the melody (its NOTE_OFF
      is the one extraction strips); with [pad_end] the length is the last note's end rounded up to
      a bar, the NOTE_OFF being present iff padding follows it.
    No proofs here. *)
From Coq Require Import ZArith List Bool.
From NS Require Import Base.NoteSeq Gen.G07 Model.FqCommon Model.FqMelody Model.RenderCommon.
Import ListNotations.
Local Open Scope Z_scope.

Definition is_pitch (e : Z) : bool := (MIN_MIDI_PITCH <=? e) && (e <=? MAX_MIDI_PITCH).

(** [cur] = the sustained note, (pitch, start step) *)
Fixpoint mel_render (v i pr : Z) (es : list Z) (step : Z) (cur : option (Z * Z)) : list note :=
  let close := match cur with Some (p, s) => [rnote p v i pr false s step] | None => [] end in
  match es with
  | [] => close
  | e :: r =>
      if is_pitch e then close ++ mel_render v i pr r (step + 1) (Some (e, step))
      else if e =? MELODY_NOTE_OFF then close ++ mel_render v i pr r (step + 1) None
      else mel_render v i pr r (step + 1) cur
  end.

Definition mel_to_step_notes (v i pr s0 : Z) (es : list Z) : list note :=
  mel_render v i pr es s0 None.

(** the re-quantized rendered sequence *)
Definition mel_rseq (spq : Z) (ts : tsig) (v i pr s0 : Z) (es : list Z) : seq :=
  let ns := mel_to_step_notes v i pr s0 es in
  rseq spq ts ns [] (max_end (last_end ns) ns).

(** canonical melodies: a scan with three states *)
Inductive mel_st := MLead | MOn | MOff (j : Z).

Definition valid_mel_event (e : Z) : bool :=
  (e =? MELODY_NO_EVENT) || (e =? MELODY_NOTE_OFF) || is_pitch e.

(** [i] = index of the head of [es]; returns the final state, or None when a rule is broken *)
Fixpoint mel_scan_canon (spb G : Z) (es : list Z) (i : Z) (st : mel_st) : option mel_st :=
  match es with
  | [] => Some st
  | e :: r =>
      if negb (valid_mel_event e) then None
      else if is_pitch e then
        match st with
        | MLead => if i <? spb then mel_scan_canon spb G r (i + 1) MOn else None
        | MOn => if 0 <? G then mel_scan_canon spb G r (i + 1) MOn else None
        | MOff j => if i - j <? G then mel_scan_canon spb G r (i + 1) MOn else None
        end
      else if e =? MELODY_NOTE_OFF then
        match st with
        | MOn => mel_scan_canon spb G r (i + 1) (MOff i)
        | _ => None
        end
      else mel_scan_canon spb G r (i + 1) st
  end.

Definition canonical_melody (spb ss gap_bars : Z) (pad_end : bool) (s0 : Z) (es : list Z) : bool :=
  match es with
  | [] => s0 =? 0
  | _ :: _ =>
      (0 <? spb) && (0 <=? s0) && (ss <=? s0) && ((s0 - ss) mod spb =? 0)
      && match mel_scan_canon spb (gap_bars * spb) es 0 MLead with
         | Some MOn => if pad_end then len es mod spb =? 0 else true
         | Some (MOff j) => if pad_end then len es =? pad_len j spb else false
         | _ => false
         end
  end.
