(** Model/EncDec.v — note_seq/encoder_decoder.py, the parts shared by every
    EventSequenceEncoderDecoder (C08):

      * Python list semantics the encoders rely on: [events[i]] with negative
        indices wrapping, [input_[i] = v] with IndexError, [[0.0] * n],
        [range(n)];
      * [EventSequenceEncoderDecoder.encode] (one loop, defined once in the base
        class and inherited by every encoder);
      * the generation loop ([class_index_to_event] then [append]) used by
        [extend_event_sequences] and by every [labels_to_num_steps];
      * [OneHotEventSequenceEncoderDecoder], [OneHotIndexEventSequenceEncoderDecoder];
      * [ConditionalEventSequenceEncoderDecoder].

    [None] = the Python call raises (IndexError / ValueError / AssertionError);
    the harness compares "raises" with "raises", not the class.
    Input vectors are lists of [Z]: 1.0 -> 1, 0.0 -> 0, -1.0 -> -1. *)
From Coq Require Import ZArith List Bool.
Import ListNotations.
Local Open Scope Z_scope.

(** * Python helpers *)
Definition zlen {A} (l : list A) : Z := Z.of_nat (length l).

Definition bind {A B} (o : option A) (f : A -> option B) : option B :=
  match o with Some a => f a | None => None end.
Notation "x <- e ;; k" := (bind e (fun x => k))
  (at level 61, e at next level, right associativity).

(* l[i] *)
Definition py_nth {A} (l : list A) (i : Z) : option A :=
  let j := if i <? 0 then i + zlen l else i in
  if j <? 0 then None else nth_error l (Z.to_nat j).

Fixpoint upd {A} (k : nat) (v : A) (l : list A) : list A :=
  match l with
  | [] => []
  | x :: r => match k with O => v :: r | S k' => x :: upd k' v r end
  end.

(* l[i] = v *)
Definition py_set {A} (l : list A) (i : Z) (v : A) : option (list A) :=
  let j := if i <? 0 then i + zlen l else i in
  if (j <? 0) || (zlen l <=? j) then None else Some (upd (Z.to_nat j) v l).

(* [0.0] * m  (m < 0 gives []) *)
Definition zeros (m : Z) : list Z := repeat 0 (Z.to_nat m).

(* range(m) *)
Definition zrange (m : Z) : list Z := map Z.of_nat (seq 0 (Z.to_nat m)).

(* list(enumerate(l)) *)
Definition enumerate {A} (l : list A) : list (Z * A) := combine (zrange (zlen l)) l.

Fixpoint opt_all {A} (l : list (option A)) : option (list A) :=
  match l with
  | [] => Some []
  | o :: r => x <- o ;; xs <- opt_all r ;; Some (x :: xs)
  end.

Definition zsum (l : list Z) : Z := fold_right Z.add 0 l.

(** * The abstract EventSequenceEncoderDecoder interface *)
Record encdec (E L : Type) : Type := mkEncDec {
  ed_input_size : Z;
  ed_input : list E -> Z -> option (list Z);     (* events_to_input(events, position) *)
  ed_label : list E -> Z -> option L;            (* events_to_label(events, position) *)
  ed_decode : L -> list E -> option E;           (* class_index_to_event(class_index, events) *)
  ed_num_steps : list L -> option Z              (* labels_to_num_steps(labels) *)
}.
Arguments mkEncDec {E L}.
Arguments ed_input_size {E L}.
Arguments ed_input {E L}.
Arguments ed_label {E L}.
Arguments ed_decode {E L}.
Arguments ed_num_steps {E L}.

(** EventSequenceEncoderDecoder.encode:
      for i in range(len(events) - 1):
        inputs.append(self.events_to_input(events, i))
        labels.append(self.events_to_label(events, i + 1))
      return inputs, labels *)
Definition encode_with {L} (inp : Z -> option (list Z)) (lab : Z -> option L) (len : Z)
  : option (list (list Z) * list L) :=
  ps <- opt_all (map (fun i => x <- inp i ;; l <- lab (i + 1) ;; Some (x, l)) (zrange (len - 1))) ;;
  Some (map fst ps, map snd ps).

Definition encode {E L} (ed : encdec E L) (es : list E) : option (list (list Z) * list L) :=
  encode_with (ed_input ed es) (ed_label ed es) (zlen es).

(** The generation loop:  events.append(self.class_index_to_event(label, events)) *)
Fixpoint generate {E L} (dec : L -> list E -> option E) (labels : list L) (evs : list E)
  : option (list E) :=
  match labels with
  | [] => Some evs
  | l :: r => e <- dec l evs ;; generate dec r (evs ++ [e])
  end.

(* labels_to_num_steps of the one-hot / lookback / modulo encoders:
     events = []; for label in labels: events.append(class_index_to_event(label, events))
     return sum(event_to_num_steps(event) for event in events) *)
Definition steps_by_generation {E L} (dec : L -> list E -> option E) (steps : E -> Z)
  (labels : list L) : option Z :=
  evs <- generate dec labels [] ;; Some (zsum (map steps evs)).

(** * OneHotEventSequenceEncoderDecoder / OneHotIndexEventSequenceEncoderDecoder *)
Section OneHotSeq.
  Variable E : Type.
  Variable n : Z.                      (* one_hot_encoding.num_classes *)
  Variable enc : E -> option Z.        (* encode_event (None = raises) *)
  Variable dec : Z -> option E.        (* decode_event *)
  Variable steps : E -> Z.             (* event_to_num_steps *)

  Definition ohs_input (es : list E) (p : Z) : option (list Z) :=
    e <- py_nth es p ;; c <- enc e ;; py_set (zeros n) c 1.

  Definition ohs_label (es : list E) (p : Z) : option Z :=
    e <- py_nth es p ;; enc e.

  Definition ohs_decode (c : Z) (_ : list E) : option E := dec c.

  Definition ohs : encdec E Z :=
    mkEncDec n ohs_input ohs_label ohs_decode (steps_by_generation ohs_decode steps).

  Definition ohi_input (es : list E) (p : Z) : option (list Z) :=
    e <- py_nth es p ;; c <- enc e ;; Some [c].

  Definition ohi : encdec E Z :=
    mkEncDec 1 ohi_input ohs_label ohs_decode (steps_by_generation ohs_decode steps).
End OneHotSeq.

(** * ConditionalEventSequenceEncoderDecoder *)
Section Conditional.
  Context {C LC T LT : Type}.
  Variable ctl : encdec C LC.
  Variable tgt : encdec T LT.

  Definition cond_input_size : Z := ed_input_size ctl + ed_input_size tgt.

  Definition cond_input (cs : list C) (ts : list T) (p : Z) : option (list Z) :=
    a <- ed_input ctl cs (p + 1) ;; b <- ed_input tgt ts p ;; Some (a ++ b).

  Definition cond_label (ts : list T) (p : Z) : option LT := ed_label tgt ts p.
  Definition cond_decode (c : LT) (ts : list T) : option T := ed_decode tgt c ts.
  Definition cond_num_steps (ls : list LT) : option Z := ed_num_steps tgt ls.

  (* encode: ValueError when the lengths differ; otherwise the same loop *)
  Definition cond_encode (cs : list C) (ts : list T) : option (list (list Z) * list LT) :=
    if negb (zlen cs =? zlen ts) then None
    else encode_with (cond_input cs ts) (cond_label ts) (zlen ts).
End Conditional.
