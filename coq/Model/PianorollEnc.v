(** Model/PianorollEnc.v — pianoroll_encoder_decoder.PianorollEncoderDecoder (C08).
    An event is a tuple of pitch offsets; the label is the sum of 2**pitch (so
    a repeated pitch is added twice — the model keeps that); the inverse reads
    [input_size] bits and asserts that nothing is left. *)
From Coq Require Import ZArith List Bool.
From NS Require Import Model.EncDec.
Import ListNotations.
Local Open Scope Z_scope.

Section Pianoroll.
  Variable size : Z.                    (* input_size *)

  Definition pr_num_classes : Z := 2 ^ size.
  Definition pr_default_label : Z := 0.

  (* _event_to_label; None = a negative pitch (2**pitch is then a float, outside
     the integer label space) *)
  Fixpoint pr_event_to_label (ev : list Z) (label : Z) : option Z :=
    match ev with
    | [] => Some label
    | p :: r => if p <? 0 then None else pr_event_to_label r (label + 2 ^ p)
    end.

  Definition pr_label (es : list (list Z)) (p : Z) : option Z :=
    e <- py_nth es p ;; pr_event_to_label e 0.

  (* np.zeros(size)[list(event)] = 1 : numpy index rules are Python's
     (negative wraps, out of range raises) *)
  Fixpoint pr_event_to_input (ev : list Z) (v : list Z) : option (list Z) :=
    match ev with
    | [] => Some v
    | p :: r => v' <- py_set v p 1 ;; pr_event_to_input r v'
    end.

  Definition pr_input (es : list (list Z)) (p : Z) : option (list Z) :=
    e <- py_nth es p ;; pr_event_to_input e (zeros size).

  (* for i in range(input_size): if class_index % 2: event.append(i); class_index >>= 1 *)
  Fixpoint pr_bits (is : list Z) (c : Z) (acc : list Z) : list Z * Z :=
    match is with
    | [] => (acc, c)
    | i :: r => pr_bits r (Z.shiftr c 1) (if c mod 2 =? 0 then acc else acc ++ [i])
    end.

  Definition pr_decode (c : Z) (_ : list (list Z)) : option (list Z) :=
    if negb (c <? pr_num_classes) then None            (* assert class_index < num_classes *)
    else let '(ev, rest) := pr_bits (zrange size) c [] in
         if rest =? 0 then Some ev else None.          (* assert class_index == 0 *)

  (* labels_to_num_steps is the base class's: len(labels) *)
  Definition pr : encdec (list Z) Z :=
    mkEncDec size pr_input pr_label pr_decode (fun ls => Some (zlen ls)).
End Pianoroll.
