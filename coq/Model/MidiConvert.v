(** Model/MidiConvert.v — C16: everything [note_seq.midi_io.midi_to_note_sequence]
    does AFTER the [pretty_midi.PrettyMIDI] constructor has returned, as a total
    function [convert : pm -> result cseq] over an abstract record [pm] of exactly
    what the code reads from the PrettyMIDI object.

    bytes -> PrettyMIDI (mido + pretty_midi, inside the bare [except]) is NOT
    modelled; it is fuzzed and invariant-monitored by harness/vt/props/c16.py.

    Time domain.  The conversion never does arithmetic on times: it copies them,
    compares them ([midi_note.end > sequence.total_time]) and tests one for
    truthiness ([not sequence.total_time]).  A time (and a qpm) is therefore the
    *ordinal* of the IEEE double: the order-preserving integer
    [ord x = bits x] for [x >= +0.0], [ord x = -(bits |x|)] for [x <= -0.0]
    (so both zeros are 0 and [<], [>], [== 0] on doubles are exactly [<], [>],
    [=? 0] on ordinals; NaN is excluded by the harness).

    Failure modes of the protobuf (upb) assignments, established by probe and
    re-checked by the harness on every run:
      * int32 field <- Python int outside [-2^31, 2^31-1]   : ValueError
      * string field <- str containing a surrogate code point : UnicodeEncodeError
      * double / bool / enum(key % 12) assignments            : cannot fail for
        ints / floats / bools (non-numeric *types* are outside the model).
    The code catches ValueError only around [time_signature.denominator = ...]
    (-> MIDIConversionError) and raises MIDIConversionError itself for
    [key_number // 12] not in {0, 1}.

    This file follows the code of the tree under test WITH notes/C16-fix-1.diff
    applied (reject [midi.resolution <= 0] with MIDIConversionError right after
    the constructor); [convert_gen false] is the unrepaired code, kept so that the
    defect is a statement ([convert_legacy_refuted] in Proofs/MidiConvert.v). *)
From Coq Require Import ZArith List Bool.
From NS Require Import Base.Sx Base.NoteSeq Gen.G16.
Import ListNotations.
Local Open Scope Z_scope.

(** * Python exceptions as values *)
Inductive exn : Type :=
| MIDIConversionError   (* the documented error *)
| ValueError            (* protobuf: int32 out of range (foreign) *)
| UnicodeEncodeError.   (* protobuf: string with surrogates (foreign) *)

Inductive result (A : Type) : Type :=
| Ok (a : A)
| Err (e : exn).
Arguments Ok {A} a.
Arguments Err {A} e.

Definition bind {A B} (r : result A) (f : A -> result B) : result B :=
  match r with Ok a => f a | Err e => Err e end.

(** first failing element raises; results are appended in order *)
Fixpoint mapM {A B} (f : A -> result B) (l : list A) : result (list B) :=
  match l with
  | [] => Ok []
  | x :: r => bind (f x) (fun y => bind (mapM f r) (fun ys => Ok (y :: ys)))
  end.

(** * What the code reads from the PrettyMIDI object *)
Record pnote := mkPNote { pn_start : Z; pn_end : Z; pn_pitch : Z; pn_vel : Z }.
Record pbend := mkPBend { pbd_time : Z; pbd_pitch : Z }.
Record pcc := mkPCc { pc_time : Z; pc_number : Z; pc_value : Z }.
Record pinst := mkPInst {
  pi_program : Z; pi_drum : bool; pi_name : list Z (* code points *);
  pi_notes : list pnote; pi_bends : list pbend; pi_ccs : list pcc }.
Record ptsig := mkPTsig { pt_time : Z; pt_num : Z; pt_den : Z }.
Record pkey := mkPKey { pk_time : Z; pk_number : Z }.
Record ptempo := mkPTempo { pp_time : Z; pp_qpm : Z }.   (* get_tempo_changes, zipped *)
Record pm := mkPm {
  pm_res : Z;                       (* midi.resolution *)
  pm_tsigs : list ptsig;            (* midi.time_signature_changes *)
  pm_keys : list pkey;              (* midi.key_signature_changes *)
  pm_tempos : list ptempo;          (* midi.get_tempo_changes() zipped *)
  pm_insts : list pinst }.          (* midi.instruments *)

(** * What the code produces: the shared NoteSequence record plus the two
    things it does not carry (instrument_infos, source_info) *)
Record info := mkInfo { in_instr : Z; in_name : list Z }.
Record cseq := mkCseq {
  c_seq : seq; c_infos : list info; c_parser : Z; c_encoding : Z }.

(** * protobuf assignment checks *)
Definition int32_ok (z : Z) : bool := (INT32_MIN <=? z) && (z <=? INT32_MAX).
Definition set_int32 (z : Z) : result Z := if int32_ok z then Ok z else Err ValueError.
Definition surrogate (c : Z) : bool := (55296 <=? c) && (c <=? 57343).   (* U+D800..U+DFFF *)
Definition set_string (s : list Z) : result (list Z) :=
  if existsb surrogate s then Err UnicodeEncodeError else Ok s.

(** * Pass 1: time signatures (midi_io.py, "Populate time signatures") *)
Definition conv_tsig (t : ptsig) : result tsig :=
  (* time_signature.time = midi_time.time            : double, cannot fail *)
  bind (set_int32 (pt_num t)) (fun n =>              (* .numerator: ValueError escapes *)
  if int32_ok (pt_den t)                             (* .denominator inside try/except ValueError *)
  then Ok (mkTsig (pt_time t) n (pt_den t))
  else Err MIDIConversionError).

(** * Pass 2: key signatures *)
Definition conv_key (k : pkey) : result ksig :=
  let key := (pk_number k) mod 12 in                 (* Python %: 0..11 for any int; enum assignment ok *)
  let mode := (pk_number k) / 12 in                  (* Python //: floor *)
  if mode =? 0 then Ok (mkKsig (pk_time k) key KS_MAJOR)
  else if mode =? 1 then Ok (mkKsig (pk_time k) key KS_MINOR)
  else Err MIDIConversionError.

(** * Pass 3: tempos (two double assignments) *)
Definition conv_tempo (t : ptempo) : tempo := mkTempo (pp_time t) (pp_qpm t).

(** * Pass 4: gather over [enumerate(midi.instruments)] *)
(** [if not sequence.total_time or midi_note.end > sequence.total_time: total_time = end] *)
Definition upd_total (tot : Z) (n : pnote) : Z :=
  if (tot =? 0) || (pn_end n >? tot) then pn_end n else tot.

(** (program, num_instrument, is_drum, event) *)
Record tagged (A : Type) := mkTag { tg_prog : Z; tg_instr : Z; tg_drum : bool; tg_ev : A }.
Arguments mkTag {A}. Arguments tg_prog {A}. Arguments tg_instr {A}. Arguments tg_drum {A}. Arguments tg_ev {A}.

Definition tag_all {A} (idx : Z) (i : pinst) (l : list A) : list (tagged A) :=
  map (mkTag (pi_program i) idx (pi_drum i)) l.

Definition conv_info (idx : Z) (i : pinst) : result (list info) :=
  match pi_name i with
  | [] => Ok []                                      (* if midi_instrument.name: *)
  | _ => bind (set_string (pi_name i)) (fun nm =>    (* instrument_info.name = ... *)
         bind (set_int32 idx) (fun ix =>             (* instrument_info.instrument = num_instrument *)
         Ok [mkInfo ix nm]))
  end.

Record gathered := mkGath {
  g_infos : list info; g_total : Z;
  g_notes : list (tagged pnote); g_bends : list (tagged pbend); g_ccs : list (tagged pcc) }.

Fixpoint gather (idx : Z) (l : list pinst) (tot : Z) : result gathered :=
  match l with
  | [] => Ok (mkGath [] tot [] [] [])
  | i :: r =>
      bind (conv_info idx i) (fun inf =>
      let tot' := fold_left upd_total (pi_notes i) tot in
      bind (gather (idx + 1) r tot') (fun g =>
      Ok (mkGath (inf ++ g_infos g) (g_total g)
                 (tag_all idx i (pi_notes i) ++ g_notes g)
                 (tag_all idx i (pi_bends i) ++ g_bends g)
                 (tag_all idx i (pi_ccs i) ++ g_ccs g))))
  end.

(** * Pass 5-7: notes, pitch bends, control changes *)
Definition conv_note (t : tagged pnote) : result note :=
  bind (set_int32 (tg_instr t)) (fun ins =>
  bind (set_int32 (tg_prog t)) (fun prog =>
  bind (set_int32 (pn_pitch (tg_ev t))) (fun p =>
  bind (set_int32 (pn_vel (tg_ev t))) (fun v =>
  Ok (mkNote p v (pn_start (tg_ev t)) (pn_end (tg_ev t)) ins prog (tg_drum t) 0 0 0))))).

Definition conv_bend (t : tagged pbend) : result bend :=
  bind (set_int32 (tg_instr t)) (fun ins =>
  bind (set_int32 (tg_prog t)) (fun prog =>
  bind (set_int32 (pbd_pitch (tg_ev t))) (fun b =>
  Ok (mkBend (pbd_time (tg_ev t)) b ins prog (tg_drum t))))).

Definition conv_cc (t : tagged pcc) : result cc :=
  bind (set_int32 (tg_instr t)) (fun ins =>
  bind (set_int32 (tg_prog t)) (fun prog =>
  bind (set_int32 (pc_number (tg_ev t))) (fun n =>
  bind (set_int32 (pc_value (tg_ev t))) (fun v =>
  Ok (mkCc (pc_time (tg_ev t)) 0 n v ins prog (tg_drum t)))))).

(** * The whole post-constructor conversion.
    [fixed = true]: with notes/C16-fix-1.diff (the tree the check expects);
    [fixed = false]: the unrepaired code. *)
Definition convert_gen (fixed : bool) (m : pm) : result cseq :=
  if fixed && (pm_res m <=? 0) then Err MIDIConversionError else
  bind (set_int32 (pm_res m)) (fun tpq =>            (* sequence.ticks_per_quarter = midi.resolution *)
  bind (mapM conv_tsig (pm_tsigs m)) (fun tsigs =>
  bind (mapM conv_key (pm_keys m)) (fun ksigs =>
  let tempos := map conv_tempo (pm_tempos m) in
  bind (gather 0 (pm_insts m) 0) (fun g =>
  bind (mapM conv_note (g_notes g)) (fun notes =>
  bind (mapM conv_bend (g_bends g)) (fun bends =>
  bind (mapM conv_cc (g_ccs g)) (fun ccs =>
  Ok (mkCseq (mkSeq notes tempos tsigs ksigs [] ccs bends [] (g_total g) 0 0 0 (0, 0) tpq 0)
             (g_infos g) SRC_PRETTY_MIDI ENC_MIDI)))))))).

Definition convert : pm -> result cseq := convert_gen true.
Definition convert_legacy : pm -> result cseq := convert_gen false.

(** * The pretty_midi object invariant the theorem assumes and the harness
    monitors on every object that parses (boolean, evaluated on both sides). *)
Definition byte7 (z : Z) : bool := (0 <=? z) && (z <=? 127).

Definition note_rangeb (n : pnote) : bool := byte7 (pn_pitch n) && byte7 (pn_vel n).
Definition note_timeb (n : pnote) : bool := (0 <=? pn_start n) && (pn_start n <=? pn_end n).

Definition inst_rangeb (i : pinst) : bool :=
  int32_ok (pi_program i) && negb (existsb surrogate (pi_name i)) &&
  forallb note_rangeb (pi_notes i) &&
  forallb (fun b => int32_ok (pbd_pitch b)) (pi_bends i) &&
  forallb (fun c => int32_ok (pc_number c) && int32_ok (pc_value c)) (pi_ccs i).

Definition inst_timeb (i : pinst) : bool :=
  forallb note_timeb (pi_notes i) &&
  forallb (fun b => 0 <=? pbd_time b) (pi_bends i) &&
  forallb (fun c => 0 <=? pc_time c) (pi_ccs i).

(** value ranges: hold for every parsed object *)
Definition pm_rangeb (m : pm) : bool :=
  (pm_res m <=? INT32_MAX) &&
  forallb (fun t => int32_ok (pt_num t)) (pm_tsigs m) &&
  (Z.of_nat (length (pm_insts m)) <=? INT32_MAX + 1) &&
  forallb inst_rangeb (pm_insts m).
  (* nothing about denominators or key numbers: the code handles every value *)

(** times: non-negative and ordered — guaranteed by pretty_midi only when the
    resolution is positive (a negative SMPTE division makes times negative) *)
Definition pm_timeb (m : pm) : bool :=
  forallb (fun t => 0 <=? pt_time t) (pm_tsigs m) &&
  forallb (fun k => 0 <=? pk_time k) (pm_keys m) &&
  forallb (fun t => 0 <=? pp_time t) (pm_tempos m) &&
  forallb inst_timeb (pm_insts m).

Definition pm_invb (m : pm) : bool :=
  pm_rangeb m && ((pm_res m <=? 0) || pm_timeb m).

(** * What pretty_midi's own container constructors enforce (TimeSignature: positive
    numerator and denominator, time >= 0; KeySignature: 0 <= key_number < 24, time >= 0;
    Note: end >= start).  Every object a byte string parses to satisfies it (monitored);
    the harness builds, compares and judges constructed objects only inside it.  The
    theorems below do not need it ([pm_invb] alone suffices), it only sharpens them. *)
Definition pm_ctorb (m : pm) : bool :=
  forallb (fun t => (1 <=? pt_num t) && (1 <=? pt_den t) && (0 <=? pt_time t)) (pm_tsigs m) &&
  forallb (fun k => (0 <=? pk_number k) && (pk_number k <=? 23) && (0 <=? pk_time k)) (pm_keys m) &&
  forallb (fun i => forallb (fun n => pn_start n <=? pn_end n) (pi_notes i)) (pm_insts m).

(** * Which exception classes CAN surface, over every order in which the independent
    assignments might be executed.  The code fills independent repeated fields (time
    signatures, keys, infos, notes, bends, control changes); which failing assignment is
    reached first depends on loop structure only, which the property does not constrain.
    For constructed objects outside [pm_invb] the correspondence therefore compares the
    implementation's exception class against this set, not against the first one
    [convert] meets.  (For every object that a byte string parses to, the set is
    {MIDIConversionError} or empty and the comparison stays exact.) *)
Definition can_mce (m : pm) : bool :=
  (pm_res m <=? 0) ||
  existsb (fun t => negb (int32_ok (pt_den t))) (pm_tsigs m) ||
  existsb (fun k => negb ((pk_number k / 12 =? 0) || (pk_number k / 12 =? 1))) (pm_keys m).

Definition can_unicode (m : pm) : bool :=
  existsb (fun i => existsb surrogate (pi_name i)) (pm_insts m).

Definition nonempty {A} (l : list A) : bool := match l with [] => false | _ => true end.

Definition inst_value_err (idx : Z) (i : pinst) : bool :=
  (nonempty (pi_name i) && negb (int32_ok idx)) ||
  ((nonempty (pi_notes i) || nonempty (pi_bends i) || nonempty (pi_ccs i)) &&
     (negb (int32_ok idx) || negb (int32_ok (pi_program i)))) ||
  existsb (fun n => negb (int32_ok (pn_pitch n)) || negb (int32_ok (pn_vel n))) (pi_notes i) ||
  existsb (fun b => negb (int32_ok (pbd_pitch b))) (pi_bends i) ||
  existsb (fun c => negb (int32_ok (pc_number c)) || negb (int32_ok (pc_value c))) (pi_ccs i).

Fixpoint insts_value_err (idx : Z) (l : list pinst) : bool :=
  match l with
  | [] => false
  | i :: r => inst_value_err idx i || insts_value_err (idx + 1) r
  end.

Definition can_value (m : pm) : bool :=
  negb (int32_ok (pm_res m)) ||
  existsb (fun t => negb (int32_ok (pt_num t))) (pm_tsigs m) ||
  insts_value_err 0 (pm_insts m).

Definition exn_possible (m : pm) (e : exn) : bool :=
  match e with
  | MIDIConversionError => can_mce m
  | ValueError => can_value m
  | UnicodeEncodeError => can_unicode m
  end.

(** * Well-formedness of the result (the property's second sentence) *)
Definition note_byteb (n : note) : bool := byte7 (n_pitch n) && byte7 (n_vel n).
Definition c16_wf (c : cseq) : Prop :=
  seq_wf (c_seq c) /\ forallb note_byteb (s_notes (c_seq c)) = true.

(** boolean version, used by the runner so the harness can cross-check its own
    well-formedness oracle against the Coq definition *)
Definition seq_wfb (s : seq) : bool :=
  forallb (fun n => (0 <=? n_start n) && (n_start n <=? n_end n) && (n_end n <=? s_total s)) (s_notes s) &&
  forallb (fun t => 0 <=? tp_time t) (s_tempos s) && forallb (fun t => 0 <=? ts_time t) (s_tsigs s) &&
  forallb (fun t => 0 <=? ks_time t) (s_ksigs s) && forallb (fun t => 0 <=? tx_time t) (s_texts s) &&
  forallb (fun t => 0 <=? cc_time t) (s_ccs s) && forallb (fun t => 0 <=? pb_time t) (s_bends s) &&
  forallb (fun t => 0 <=? sa_time t) (s_sects s).
Definition c16_wfb (c : cseq) : bool := seq_wfb (c_seq c) && forallb note_byteb (s_notes (c_seq c)).
