(** Model/RenderDrums.v — drums_lib.DrumTrack.to_sequence at step level, and the canonical drum
    tracks (C06).

    An event is the list of the pitches of one step (a frozenset in Python; the harness sends it
    sorted).  [dr_render]: one note per pitch, lasting exactly one step, [is_drum = True].

    [canonical_drums spb ss gap_bars pad_end s0 es]: BOOLEAN; the tracks
    [from_quantized_sequence(search_start_step=ss, gap_bars, pad_end)] can return:
    - the empty track has start_step 0;
    - otherwise start_step is [ss] plus a whole number of bars, not negative; the first bar contains
      a hit; a hit that follows the previous hit's step by [d] empty steps has
      [d < gap_bars * spb]; the track ends with its last hit, or (pad_end) at that length rounded up
      to a bar.
    No proofs here. *)
From Coq Require Import ZArith List Bool.
From NS Require Import Base.NoteSeq Gen.G07 Model.FqCommon Model.FqDrums Model.RenderCommon.
Import ListNotations.
Local Open Scope Z_scope.

Fixpoint dr_render (v i pr : Z) (es : list (list Z)) (step : Z) : list note :=
  match es with
  | [] => []
  | ps :: r => map (fun q => rnote q v i pr true step (step + 1)) ps ++ dr_render v i pr r (step + 1)
  end.

Definition dr_to_step_notes (v i pr s0 : Z) (es : list (list Z)) : list note := dr_render v i pr es s0.

Definition dr_rseq (spq : Z) (ts : tsig) (v i pr s0 : Z) (es : list (list Z)) : seq :=
  let ns := dr_to_step_notes v i pr s0 es in
  rseq spq ts ns [] (max_end (last_end ns) ns).

(** [last] = index of the previous hit *)
Fixpoint dr_scan_canon (spb G : Z) (es : list (list Z)) (i : Z) (last : option Z) : option (option Z) :=
  match es with
  | [] => Some last
  | ps :: r =>
      if is_nil ps then dr_scan_canon spb G r (i + 1) last
      else match last with
           | None => if i <? spb then dr_scan_canon spb G r (i + 1) (Some i) else None
           | Some j => if i - (j + 1) <? G then dr_scan_canon spb G r (i + 1) (Some i) else None
           end
  end.

Definition canonical_drums (spb ss gap_bars : Z) (pad_end : bool) (s0 : Z) (es : list (list Z)) : bool :=
  match es with
  | [] => s0 =? 0
  | _ :: _ =>
      (0 <? spb) && (0 <=? s0) && (ss <=? s0) && ((s0 - ss) mod spb =? 0)
      && match dr_scan_canon spb (gap_bars * spb) es 0 None with
         | Some (Some j) => len es =? (if pad_end then pad_len (j + 1) spb else j + 1)
         | _ => false
         end
  end.
