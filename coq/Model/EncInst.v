(** Model/EncInst.v — the concrete encoders the C08 correspondence run drives:
    the generic one-hot / lookback models of Model/EncDec.v and Model/Lookback.v
    instantiated with the melody and the performance one-hot encodings of
    Model/OneHot.v (C09's model of MelodyOneHotEncoding / PerformanceOneHotEncoding). *)
From Coq Require Import ZArith List Bool.
From NS Require Import Gen.G09 Model.OneHot Model.EncDec Model.Lookback Model.NotePerfEnc.
Import ListNotations.
Local Open Scope Z_scope.

(* MelodyOneHotEncoding as (num_classes, encode_event, decode_event, default_event, event_to_num_steps) *)
Definition mel_dec (mn : Z) (i : Z) : option Z := Some (mel_decode mn i).
Definition one_step (_ : Z) : Z := 1.

Definition ohs_mel (mn mx : Z) : encdec Z Z :=
  ohs Z (mel_num_classes mn mx) (mel_encode mn mx) (mel_dec mn) one_step.
Definition ohi_mel (mn mx : Z) : encdec Z Z :=
  ohi Z (mel_encode mn mx) (mel_dec mn) one_step.
Definition lb_mel (mn mx : Z) (ds : list Z) (bits : Z) : encdec Z Z :=
  lb Z Z.eqb (mel_num_classes mn mx) (mel_encode mn mx) (mel_dec mn) MELODY_NO_EVENT one_step ds bits.

(* PerformanceOneHotEncoding, events as (type, value) pairs; == on attrs objects is field-wise *)
Definition pe_eqb (a b : pevent) : bool := (fst a =? fst b) && (snd a =? snd b).
Definition pe_enc (rs : list range) (e : pevent) : option Z := oh_encode rs 0 (fst e) (snd e).
Definition pe_dec (rs : list range) (i : Z) : option pevent := oh_decode rs 0 i.

Definition ohs_perf (nb ms minp maxp : Z) : encdec pevent Z :=
  let rs := perf_ranges nb ms minp maxp in
  ohs pevent (oh_num_classes rs) (pe_enc rs) (pe_dec rs) perf_steps.
Definition lb_perf (nb ms minp maxp : Z) (ds : list Z) (bits : Z) : encdec pevent Z :=
  let rs := perf_ranges nb ms minp maxp in
  lb pevent pe_eqb (oh_num_classes rs) (pe_enc rs) (pe_dec rs) (EV_TIME_SHIFT, ms) perf_steps ds bits.

(* default_event_label of the one-hot wrappers: encode_event(default_event) *)
Definition ohs_mel_default_label (mn mx : Z) : option Z := mel_encode mn mx MELODY_NO_EVENT.
Definition lb_mel_default_label (mn mx : Z) : option Z :=
  lb_default_label Z (mel_encode mn mx) MELODY_NO_EVENT.
Definition perf_default_label (nb ms minp maxp : Z) : option Z :=
  pe_enc (perf_ranges nb ms minp maxp) (EV_TIME_SHIFT, ms).
