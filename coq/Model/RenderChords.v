(** Model/RenderChords.v — chords_lib.ChordProgression.to_sequence and
    lead_sheets_lib.LeadSheet.to_sequence at step level, and their canonical values (C06).

    [ch_render]: one CHORD_SYMBOL text annotation at every step whose figure differs from the
    current one (initially NO_CHORD).

    [ch_to_step_texts legacy s0 es]:
    - [legacy = false]: the code AFTER notes/C06-fix-1.diff — the annotation of event [k] is at step
      [s0 + k], like every other event-sequence class (and like the melody of the same LeadSheet);
    - [legacy = true]: the code before the fix — [ChordProgression.to_sequence] ignores its own
      [start_step], the annotation of event [k] is at step [k].
    [Run/C06.v] runs [legacy = false].

    [canonical_chords s0 e0 es]: BOOLEAN; what [from_quantized_sequence(seq, s0, e0)] can return:
    a non-empty list of exactly [e0 - s0] figures (any figures), [s0 >= 0].

    LeadSheet = a Melody and a ChordProgression with equal start, length and resolution; it is
    re-extracted as the magenta pipelines do: the melody first, then the chords over
    [melody.start_step, melody.end_step).
    No proofs here. *)
From Coq Require Import ZArith List Bool.
From NS Require Import Base.NoteSeq Gen.G07 Model.FqCommon Model.FqChords Model.FqMelody
  Model.RenderCommon Model.RenderMelody.
Import ListNotations.
Local Open Scope Z_scope.

Fixpoint ch_render (es : list (list Z)) (step : Z) (cur : list Z) : list text :=
  match es with
  | [] => []
  | f :: r =>
      if zs_eqb f cur then ch_render r (step + 1) cur
      else mkText step step f CHORD_SYMBOL :: ch_render r (step + 1) f
  end.

Definition ch_to_step_texts (legacy : bool) (s0 : Z) (es : list (list Z)) : list text :=
  ch_render es (if legacy then 0 else s0) NO_CHORD.

(** [ChordProgression.to_sequence] creates no notes and leaves [total_time] at 0 *)
Definition ch_rseq (legacy : bool) (spq : Z) (ts : tsig) (s0 : Z) (es : list (list Z)) : seq :=
  rseq spq ts [] (ch_to_step_texts legacy s0 es) 0.

Definition canonical_chords (s0 e0 : Z) (es : list (list Z)) : bool :=
  (0 <=? s0) && (1 <=? len es) && (e0 =? s0 + len es).

(** LeadSheet.to_sequence: the melody's sequence plus the chord annotations *)
Definition ls_rseq (legacy : bool) (spq : Z) (ts : tsig) (v i s0 : Z) (mel : list Z) (chs : list (list Z)) : seq :=
  let ns := mel_to_step_notes v i 0 s0 mel in
  rseq spq ts ns (ch_to_step_texts legacy s0 chs) (max_end (last_end ns) ns).

Definition canonical_leadsheet (spb ss gap_bars : Z) (pad_end : bool) (s0 : Z)
           (mel : list Z) (chs : list (list Z)) : bool :=
  canonical_melody spb ss gap_bars pad_end s0 mel && (1 <=? len mel) && (len chs =? len mel).

(** re-extraction of a lead sheet: melody, then chords over the melody's step range *)
Definition ls_from_quantized (p : mel_params) (s : seq) : res (mel_result * ch_result) :=
  bind (mel_from_quantized p s) (fun m =>
  bind (ch_from_quantized s (me_start m) (me_end m)) (fun c => Ok (m, c))).
