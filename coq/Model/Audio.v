(** Model/Audio.v — executable model of the sample helpers of
    note_seq/audio_io.py (property C20).  No proofs here.

    Two float formats occur in the anchored code and are modelled bit-exactly:

    * binary32 (numpy float32) in [int16_samples_to_float32]
        y.astype(np.float32) / np.iinfo(np.int16).max
      (the Python int 32767 is a weak scalar: the division is performed in
      float32) and in [float_samples_to_int16] applied to a float32 array
        (y * np.iinfo(np.int16).max).astype(np.int16)
      (float32 product, then the C cast = truncation toward zero).  These use
      the standard library's executable IEEE specification [SpecFloat]
      ([SFdiv]/[SFmul] at prec = 24, emax = 128), the same functions that
      specify Coq's primitive binary64 operations.
    * binary64 (Python float) in [crop_samples] ([int(seconds * rate)]) and
      [repeat_samples_to_duration] ([len / rate], [duration / that],
      [math.ceil], then the crop), and in [float_samples_to_int16] applied to a
      float64 array.  These use Coq primitive floats through Base/FloatBridge
      ([trunc] = Python [int()], [fceil] = [math.ceil]).

    Python exceptions are explicit: [Err code].

    NOTE (C20-fix-1): [repeat_to_duration] follows the code *with
    notes/C20-fix-1.diff applied*: a repeat count of 0 returns the empty
    array.  The unrepaired code raises ValueError there (np.concatenate of an
    empty list); [repeat_to_duration_unfixed] is that behaviour, kept so that
    the deviation is a statement (Proofs/Audio.v: [repeat_zero_unfixed_refuted]). *)
From Coq Require Import ZArith List Bool PrimFloat FloatOps SpecFloat.
From NS Require Import Base.FloatBridge.
Import ListNotations.
Local Open Scope Z_scope.

(** * Results *)
Inductive res (A : Type) : Type :=
| Ok (a : A)
| Err (code : Z).
Arguments Ok {A} a.
Arguments Err {A} code.

Definition E_OVERFLOW : Z := 1.      (* OverflowError: int()/math.ceil of an infinity *)
Definition E_ZERODIV : Z := 2.       (* ZeroDivisionError *)
Definition E_CONCAT_EMPTY : Z := 3.  (* ValueError: need at least one array to concatenate *)
Definition E_DTYPE : Z := 4.         (* AudioIODataTypeError *)

(** [zrange lo n] = [lo; lo+1; ...; lo+n-1] (linear time under vm_compute). *)
Definition zrange (lo n : Z) : list Z :=
  match n with
  | Zpos p => fst (Pos.iter (fun '(acc, i) => (i :: acc, i - 1)) ([], lo + n - 1) p)
  | _ => []
  end.

(** * binary32 sample conversion *)
Definition prec32 : Z := 24.
Definition emax32 : Z := 128.
Definition I16_MAX : Z := 32767.     (* np.iinfo(np.int16).max *)
Definition I16_MIN : Z := -32768.

(** Exact float32 of m * 2^e when representable (rounds to nearest even otherwise);
    [astype(np.float32)] of an int16 and the weak scalar 32767 are exact. *)
Definition f32_of_me (m e : Z) : spec_float := binary_normalize prec32 emax32 m e false.
Definition f32_of_Z (z : Z) : spec_float := f32_of_me z 0.

(** int16_samples_to_float32, one sample. *)
Definition i16_to_f32 (v : Z) : spec_float :=
  SFdiv prec32 emax32 (f32_of_Z v) (f32_of_Z I16_MAX).

(** C cast float -> integer: truncation toward zero; [None] for inf/nan. *)
Definition sf_trunc (f : spec_float) : option Z :=
  match f with
  | S754_zero _ => Some 0
  | S754_finite s m e =>
      let a := match e with
               | Zneg p => Z.shiftr (Zpos m) (Zpos p)
               | _ => Z.shiftl (Zpos m) e
               end in
      Some (if s then - a else a)
  | _ => None
  end.

Definition in_i16 (z : Z) : bool := (I16_MIN <=? z) && (z <=? I16_MAX).

(** float_samples_to_int16 on a float32 sample.  [None]: the product is outside
    the int16 range (the C cast is then undefined behaviour; not modelled). *)
Definition f32_to_i16 (f : spec_float) : option Z :=
  match sf_trunc (SFmul prec32 emax32 f (f32_of_Z I16_MAX)) with
  | Some z => if in_i16 z then Some z else None
  | None => None
  end.

(** float_samples_to_int16 on a float64 sample (float64 product, truncation). *)
Definition f64_to_i16 (f : float) : option Z :=
  let p := (f * f_of_Z I16_MAX)%float in
  if finb p then (let z := trunc p in if in_i16 z then Some z else None) else None.

(** samples_to_wav_data . wav_data_to_samples on a mono float32 signal at the
    file's own rate, minus the scipy container: float32 -> int16 -> float32. *)
Fixpoint f32s_to_i16s (ys : list spec_float) : option (list Z) :=
  match ys with
  | [] => Some []
  | y :: r => match f32_to_i16 y, f32s_to_i16s r with
              | Some z, Some zs => Some (z :: zs)
              | _, _ => None
              end
  end.
Definition i16s_to_f32s (xs : list Z) : list spec_float := map i16_to_f32 xs.
Definition wav_roundtrip (ys : list spec_float) : option (list spec_float) :=
  match f32s_to_i16s ys with Some xs => Some (i16s_to_f32s xs) | None => None end.

(** * Python slicing [l[a:b]] (step 1), including negative indices *)
Definition slice_norm (n i : Z) : Z := if i <? 0 then Z.max (i + n) 0 else Z.min i n.
Definition py_slice {A : Type} (l : list A) (a b : Z) : list A :=
  let n := Z.of_nat (length l) in
  let a' := slice_norm n a in
  let b' := slice_norm n b in
  firstn (Z.to_nat (b' - a')) (skipn (Z.to_nat a') l).

(** Python [int(x)] on a float: OverflowError on an infinity (the wire format
    carries finite doubles only, so a NaN cannot arise from one product). *)
Definition py_int (x : float) : res Z := if finb x then Ok (trunc x) else Err E_OVERFLOW.

(** * crop_samples *)
Definition crop_bounds (rate : Z) (b t : float) : res (Z * Z) :=
  match py_int (b * f_of_Z rate)%float with
  | Err c => Err c
  | Ok a => match py_int (t * f_of_Z rate)%float with
            | Err c => Err c
            | Ok n => Ok (a, n)
            end
  end.

Definition crop {A : Type} (x : list A) (rate : Z) (b t : float) : res (list A) :=
  match crop_bounds rate b t with
  | Err c => Err c
  | Ok (a, n) => Ok (py_slice x a (a + n))
  end.

(** * repeat_samples_to_duration *)
(** [len(samples) / sample_rate]: Python's int/int true division is correctly
    rounded; both operands are below 2^53 so this is the float quotient. *)
Definition seq_duration (len rate : Z) : float := (f_of_Z len / f_of_Z rate)%float.

(** [int(math.ceil(duration / sequence_duration))]. *)
Definition num_repeats (len rate : Z) (d : float) : res Z :=
  if rate =? 0 then Err E_ZERODIV else
  let sd := seq_duration len rate in
  if PrimFloat.eqb sd 0%float then Err E_ZERODIV else
  let q := (d / sd)%float in
  if finb q then Ok (fceil q) else Err E_OVERFLOW.

Definition tile {A : Type} (x : list A) (k : Z) : list A := concat (List.repeat x (Z.to_nat k)).

Definition repeat_to_duration {A : Type} (x : list A) (rate : Z) (d : float) : res (list A) :=
  match num_repeats (Z.of_nat (length x)) rate d with
  | Err c => Err c
  | Ok k =>
      if k =? 0 then Ok []                       (* C20-fix-1 *)
      else if k <? 0 then Err E_CONCAT_EMPTY     (* [samples] * k = [] *)
      else crop (tile x k) rate 0%float d
  end.

Definition repeat_to_duration_unfixed {A : Type} (x : list A) (rate : Z) (d : float) : res (list A) :=
  match num_repeats (Z.of_nat (length x)) rate d with
  | Err c => Err c
  | Ok k =>
      if k <=? 0 then Err E_CONCAT_EMPTY
      else crop (tile x k) rate 0%float d
  end.

(** * make_stereo *)
Definition pad_to (m : nat) (l : list Z) : list Z := l ++ List.repeat 0 (m - length l).

(** [dl], [dr]: dtype tags of the two arrays.  Row 0 of the (2, max) zero
    array receives [left] in its first len(left) columns, row 1 [right]; the
    result is the transpose. *)
Definition make_stereo (dl dr : Z) (l r : list Z) : res (list (Z * Z)) :=
  if dl =? dr then
    let m := Nat.max (length l) (length r) in
    Ok (combine (pad_to m l) (pad_to m r))
  else Err E_DTYPE.
