(** Model/MusicXml.v — executable model of note_seq/musicxml_parser.py
    (MusicXMLDocument._parse, Part._parse, Part._repair_empty_measure,
    Measure._parse/_parse_attributes/_parse_backup/_parse_forward/
    _parse_direction/_fix_time_signature, Note._parse/_parse_pitch/
    pitch_to_midi_pitch, NoteDuration.parse_duration/duration_ratio,
    TimeSignature/KeySignature/Tempo._parse, get_time_signatures/
    get_key_signatures/get_tempos) and of
    note_seq/musicxml_reader.py:musicxml_to_sequence_proto.

    Level: an ABSTRACT SCORE (parts -> measures -> elements).  XML / zip
    parsing is glue exercised by the harness, not modelled.  Times are exact
    rationals ([Q]); the implementation computes the same quantities in
    binary64 and is compared with a relative tolerance of 1e-9.

    The parser is one mutable [MusicXMLParserState] threaded through the whole
    document in document order.  The model therefore flattens the score into a
    token stream ([tokens]) with explicit <part>/<measure> open and close
    markers and folds ONE step function over it; every per-measure and
    per-part reset of the Python code happens at the matching marker.  State
    that the Python code does not reset between parts (divisions, qpm,
    seconds_per_quarter, previous_note, time_signature) is not reset here
    either — that is finding F21 and is kept faithfully.

    The model follows the code WITH the three repairs notes/C05-fix-{1,2,3}.diff
    (minor mode read from <mode>'s text; alteration applied after the octave;
    transposed key wrapped by -12).  No proofs in this file. *)
From Coq Require Import ZArith QArith List Bool.
From NS Require Import Gen.G05.
Import ListNotations.
Local Open Scope Z_scope.

(** * Abstract score *)

(** One token per XML child the parser looks at.  The children of an
    <attributes> element are listed individually in document order (the code
    just loops over them; nothing is per-<attributes>). *)
Inductive tok : Type :=
| TPart (chan prog : Z)            (* <part> opens; channel/program of its <score-part> *)
| TPartEnd
| TMeasure                         (* <measure> opens *)
| TMeasureEnd
| TDiv (d : Z)                     (* <divisions> *)
| TKey (fifths mode : Z)           (* <key>; mode: 0 absent, 1 "major", 2 "minor", 3 other text *)
| TTime (beats beat_type : Z)      (* <time> *)
| TTranspose (chromatic : Z)       (* <transpose><chromatic> *)
| TNote (rest chord : bool) (step alter octave : Z) (dur voice : Z)
        (ty dots : Z) (tup_actual tup_normal : Z)
                                   (* step: 0..6 = C D E F G A B; ty: index into NOTE_TYPE_RATIOS;
                                      tup_actual = 0: no <time-modification> *)
| TBackup (d : Z)
| TForward (d : Z)
| TTempo (q : Q)                   (* <direction><sound tempo="q"/> *)
| THarmony (root : option (Z * option Z))          (* <root>: step 0..6, optional <root-alter> *)
           (kind : Z)                              (* index into CHORD_KINDS; -1: <kind> absent or empty *)
           (degs : list (Z * option Z * Z))        (* <degree>: value, optional alter, type 0 add 1 subtract 2 alter *)
           (bass : option (Z * option Z))
           (offset : option Z).                    (* <offset> in divisions *)

Definition measure := list tok.    (* element tokens only (no markers) *)
Record part := mkPart { p_chan : Z; p_prog : Z; p_measures : list measure }.
Definition score := list part.

Definition is_note (t : tok) : bool := match t with TNote _ _ _ _ _ _ _ _ _ _ _ => true | _ => false end.
Definition is_forward (t : tok) : bool := match t with TForward _ => true | _ => false end.

Fixpoint remove_first_forward (m : measure) : measure * Z :=
  match m with
  | [] => ([], 0)
  | TForward d :: r => (r, d)
  | t :: r => let '(r', d) := remove_first_forward r in (t :: r', d)
  end.

(** Part._repair_empty_measure: a measure with no <note> and exactly one
    <forward> loses the forward and gets a whole-measure rest of the same
    duration APPENDED (voice 1, type whole). *)
Definition WHOLE_TYPE : Z := 3.
Definition repair (m : measure) : measure :=
  if (Nat.eqb (length (filter is_note m)) 0) && (Nat.eqb (length (filter is_forward m)) 1) then
    let '(m', d) := remove_first_forward m in
    m' ++ [TNote true false 0 0 0 d 1 WHOLE_TYPE 0 0 0]
  else m.

Definition part_tokens (p : part) : list tok :=
  TPart (p_chan p) (p_prog p)
  :: flat_map (fun m => TMeasure :: repair m ++ [TMeasureEnd]) (p_measures p) ++ [TPartEnd].

Definition tokens (sc : score) : list tok := flat_map part_tokens sc.

(** * Parser state *)
Record st := mkSt {
  s_div : Z;                      (* state.divisions *)
  s_qpm : Q;                      (* state.qpm; seconds_per_quarter is always 60/qpm *)
  s_tp : Q;                       (* state.time_position *)
  s_chan : Z;
  s_prog : Z;
  s_prev : option (Z * Q);        (* previous_note: (note_duration.duration, note_duration.time_position) *)
  s_transp : Z;
  s_tsig : option (Z * Z);        (* state.time_signature (numerator, denominator) *)
  s_part : Z;                     (* index of the current part; -1 before the first *)
  m_start : Q;                    (* Measure.start_time_position *)
  m_dur : Z;                      (* Measure.duration *)
  m_tsig : option (Z * Z * Q);    (* Measure.time_signature *)
  m_ksig : option (Z * Z * Q);    (* Measure.key_signature (key, mode 0 major / 1 minor, time) *)
  s_total : Q;                    (* MusicXMLDocument.total_time_secs *)
  s_err : Z }.                    (* 0, or the first exception raised *)

Definition set_div (s : st) (v : Z) : st :=
  mkSt v (s_qpm s) (s_tp s) (s_chan s) (s_prog s) (s_prev s) (s_transp s) (s_tsig s) (s_part s) (m_start s) (m_dur s) (m_tsig s) (m_ksig s) (s_total s) (s_err s).
Definition set_qpm (s : st) (v : Q) : st :=
  mkSt (s_div s) v (s_tp s) (s_chan s) (s_prog s) (s_prev s) (s_transp s) (s_tsig s) (s_part s) (m_start s) (m_dur s) (m_tsig s) (m_ksig s) (s_total s) (s_err s).
Definition set_tp (s : st) (v : Q) : st :=
  mkSt (s_div s) (s_qpm s) v (s_chan s) (s_prog s) (s_prev s) (s_transp s) (s_tsig s) (s_part s) (m_start s) (m_dur s) (m_tsig s) (m_ksig s) (s_total s) (s_err s).
Definition set_prev (s : st) (v : option (Z * Q)) : st :=
  mkSt (s_div s) (s_qpm s) (s_tp s) (s_chan s) (s_prog s) v (s_transp s) (s_tsig s) (s_part s) (m_start s) (m_dur s) (m_tsig s) (m_ksig s) (s_total s) (s_err s).
Definition set_transp (s : st) (v : Z) : st :=
  mkSt (s_div s) (s_qpm s) (s_tp s) (s_chan s) (s_prog s) (s_prev s) v (s_tsig s) (s_part s) (m_start s) (m_dur s) (m_tsig s) (m_ksig s) (s_total s) (s_err s).
Definition set_tsig (s : st) (v : option (Z * Z)) : st :=
  mkSt (s_div s) (s_qpm s) (s_tp s) (s_chan s) (s_prog s) (s_prev s) (s_transp s) v (s_part s) (m_start s) (m_dur s) (m_tsig s) (m_ksig s) (s_total s) (s_err s).
Definition set_m_dur (s : st) (v : Z) : st :=
  mkSt (s_div s) (s_qpm s) (s_tp s) (s_chan s) (s_prog s) (s_prev s) (s_transp s) (s_tsig s) (s_part s) (m_start s) v (m_tsig s) (m_ksig s) (s_total s) (s_err s).
Definition set_m_tsig (s : st) (v : option (Z * Z * Q)) : st :=
  mkSt (s_div s) (s_qpm s) (s_tp s) (s_chan s) (s_prog s) (s_prev s) (s_transp s) (s_tsig s) (s_part s) (m_start s) (m_dur s) v (m_ksig s) (s_total s) (s_err s).
Definition set_m_ksig (s : st) (v : option (Z * Z * Q)) : st :=
  mkSt (s_div s) (s_qpm s) (s_tp s) (s_chan s) (s_prog s) (s_prev s) (s_transp s) (s_tsig s) (s_part s) (m_start s) (m_dur s) (m_tsig s) v (s_total s) (s_err s).
Definition set_total (s : st) (v : Q) : st :=
  mkSt (s_div s) (s_qpm s) (s_tp s) (s_chan s) (s_prog s) (s_prev s) (s_transp s) (s_tsig s) (s_part s) (m_start s) (m_dur s) (m_tsig s) (m_ksig s) v (s_err s).
(** Python raises at the first error; later ones are never reached. *)
Definition raise (s : st) (e : Z) : st :=
  if s_err s =? 0 then
    mkSt (s_div s) (s_qpm s) (s_tp s) (s_chan s) (s_prog s) (s_prev s) (s_transp s) (s_tsig s) (s_part s) (m_start s) (m_dur s) (m_tsig s) (m_ksig s) (s_total s) e
  else s.
(** <part> opens: time_position, channel, program, transpose are reset — and nothing else. *)
Definition open_part (s : st) (c p : Z) : st :=
  mkSt (s_div s) (s_qpm s) 0%Q c p (s_prev s) 0 (s_tsig s) (s_part s + 1) (m_start s) (m_dur s) (m_tsig s) (m_ksig s) (s_total s) (s_err s).
(** <measure> opens: a fresh Measure object. *)
Definition open_measure (s : st) : st :=
  mkSt (s_div s) (s_qpm s) (s_tp s) (s_chan s) (s_prog s) (s_prev s) (s_transp s) (s_tsig s) (s_part s) (s_tp s) 0 None None (s_total s) (s_err s).

(** Error classes.  Every MusicXMLParseError subclass is re-raised by the
    reader as MusicXMLConversionError; the others escape as they are. *)
Definition E_CONVERSION : Z := 1.      (* MusicXMLParseError family *)
Definition E_ATTRIBUTE : Z := 2.       (* AttributeError: <chord/> with no previous note *)
Definition E_INDEX : Z := 3.           (* IndexError: key outside the reader's table *)

Definition init_st : st :=
  mkSt INIT_DIVISIONS (inject_Z INIT_QPM) 0%Q DEFAULT_MIDI_CHANNEL DEFAULT_MIDI_PROGRAM None 0 None (-1)
       0%Q 0 None None 0%Q 0.

(** * Output events, in document order *)
Inductive ev : Type :=
| EvNote (part : Z) (rest : bool) (voice chan prog pitch : Z) (onset secs : Q) (rnum rden : Z)
| EvTempo (part : Z) (t q : Q)
| EvTime (n d : Z) (t : Q)
| EvKey (k mode : Z) (t : Q)
| EvChord (t : Q) (figure : list Z).

(** * Arithmetic *)

(** midi_ticks = d * (PPQ / divisions); seconds = midi_ticks / PPQ * seconds_per_quarter.
    PPQ cancels; seconds_per_quarter = 60 / qpm. *)
Definition secs_of (divs : Z) (qpm : Q) (d : Z) : Q :=
  (inject_Z d / inject_Z divs * (60 / qpm))%Q.

(** Tempo._parse: float(tempo), 0 replaced by the default. *)
Definition norm_qpm (q : Q) : Q := if Qeq_bool q 0 then inject_Z DEFAULT_QPM else q.

(** Note.pitch_to_midi_pitch (repaired): step table, then alter, then octave. *)
Definition step_class (step : Z) : option Z :=
  match step with
  | 0 => Some 0 | 1 => Some 2 | 2 => Some 4 | 3 => Some 5 | 4 => Some 7 | 5 => Some 9 | 6 => Some 11
  | _ => None
  end.
Definition midi_pitch (pc alter octave : Z) : Z := 12 + pc + alter + octave * 12.

(** NoteDuration.duration_ratio: type ratio / tuplet, plus half of it per dot, cumulatively. *)
Fixpoint dots_acc (n : nat) (cur acc : Q) : Q :=
  match n with
  | O => acc
  | S k => dots_acc k (cur * (1 # 2)) (acc + cur * (1 # 2))
  end%Q.
Definition type_ratio (ty : Z) : option Q :=
  if (0 <=? ty) && (ty <? Z.of_nat (length NOTE_TYPE_RATIOS)) then
    let '(n, d) := nth (Z.to_nat ty) NOTE_TYPE_RATIOS (0, 1) in Some (inject_Z n / inject_Z d)%Q
  else None.
Definition duration_ratio (tr : Q) (dots ta tn : Z) : Q :=
  let tup := if ta =? 0 then 1%Q else (inject_Z ta / inject_Z tn)%Q in
  let r := (tr / tup)%Q in
  Qred (dots_acc (Z.to_nat dots) r r).

(** Measure._parse_attributes, <transpose> branch (repaired: -12, not %= -6). *)
Definition transpose_key (k c : Z) : Z :=
  let nk := k + (c * -5) mod 12 in
  if nk >? 6 then nk - 12 else nk.

(** Measure._fix_time_signature. *)
Definition frac_of (n d : Z) : Q := Qred (inject_Z n / inject_Z d)%Q.

Definition fix_time_signature (s : st) : st :=
  let num := m_dur s in
  let den := s_div s * 4 in
  let f := frac_of num den in
  match s_tsig s, m_tsig s with
  | None, None =>
      (* no global and no local time signature: the measure's own length, at time 0 (constructor default) *)
      set_tsig (set_m_tsig s (Some (Qnum f, Z.pos (Qden f), 0%Q))) (Some (Qnum f, Z.pos (Qden f)))
  | None, Some _ => s                                   (* unreachable: <time> sets both *)
  | Some (sn, sd), mt =>
      let pickup := num <? sn in
      let new := if Qeq_bool f 1 && negb pickup then (sd, sd) else (Qnum f, Z.pos (Qden f)) in
      let differs := negb (Qeq_bool f (frac_of sn sd)) in
      let local_none := match mt with None => true | Some _ => false end in
      if pickup || (local_none && differs) then
        set_tsig (set_m_tsig s (Some (fst new, snd new, m_start s))) (Some new)
      else s
  end.

Definition close_measure_events (s : st) : list ev :=
  (match m_tsig s with Some (n, d, t) => [EvTime n d t] | None => [] end) ++
  (match m_ksig s with Some (k, m, t) => [EvKey k m t] | None => [] end).

(** * Chord symbols (ChordSymbol._parse / get_figure_string); strings are lists of character codes *)
Definition step_char (stp : Z) : Z := nth (Z.to_nat stp) [67; 68; 69; 70; 71; 65; 66] 72.   (* C D E F G A B, else H *)

(** ChordSymbol._alter_to_string: bb b "" # ## ; anything else raises. *)
Definition alter_string (a : Z) : option (list Z) :=
  match a with
  | -2 => Some [98; 98] | -1 => Some [98] | 0 => Some [] | 1 => Some [35] | 2 => Some [35; 35]
  | _ => None
  end.
Definition opt_alter (a : option Z) : option (list Z) :=
  match a with None => Some [] | Some x => alter_string x end.

Fixpoint dec_pos (fuel : nat) (v : Z) (acc : list Z) : list Z :=
  match fuel with
  | O => acc
  | S f => let acc' := (48 + v mod 10) :: acc in if v / 10 =? 0 then acc' else dec_pos f (v / 10) acc'
  end.
Definition dec (v : Z) : list Z := if v <? 0 then 45 :: dec_pos 40 (- v) [] else dec_pos 40 v [].

Definition is_nil (l : list Z) : bool := match l with [] => true | _ => false end.
Fixpoint str_eqb (a b : list Z) : bool :=
  match a, b with
  | [], [] => true
  | x :: a', y :: b' => (x =? y) && str_eqb a' b'
  | _, _ => false
  end.

(** _parse_pitch for <root>/<bass>: step ++ alter string; chord symbols of a transposing part are rejected. *)
Definition harm_pitch (transp : Z) (p : Z * option Z) : option (list Z) :=
  match opt_alter (snd p) with
  | None => None
  | Some als => if transp =? 0 then Some (step_char (fst p) :: als) else None
  end.

(** _parse_degree. *)
Definition degree_string (d : Z * option Z * Z) : option (list Z) :=
  let '(v, a, ty) := d in
  match opt_alter a with
  | None => None
  | Some als =>
      match ty with
      | 0 => Some ((if is_nil als then [97; 100; 100] else []) ++ als ++ dec v)    (* add *)
      | 1 => Some ([110; 111] ++ dec v)                                             (* subtract: "no" *)
      | 2 => if is_nil als then None else Some (als ++ dec v)                        (* alter *)
      | _ => None
      end
  end.
Fixpoint degree_strings (ds : list (Z * option Z * Z)) : option (list (list Z)) :=
  match ds with
  | [] => Some []
  | d :: r => match degree_string d, degree_strings r with
              | Some x, Some xs => Some (x :: xs)
              | _, _ => None
              end
  end.

Definition NC : list Z := [78; 46; 67; 46].
Definition kind_abbrev (kind : Z) : option (list Z) :=
  if kind =? -1 then Some []
  else if (0 <=? kind) && (kind <? Z.of_nat (length CHORD_KINDS)) then Some (snd (nth (Z.to_nat kind) CHORD_KINDS ([], [])))
  else None.

(** The figure string, or None when any ChordSymbolParseError is raised. *)
Definition harmony_figure (transp : Z) (root : option (Z * option Z)) (kind : Z)
           (degs : list (Z * option Z * Z)) (bass : option (Z * option Z)) : option (list Z) :=
  let rs := match root with None => Some None | Some p => option_map Some (harm_pitch transp p) end in
  let bs := match bass with None => Some None | Some p => option_map Some (harm_pitch transp p) end in
  match rs, kind_abbrev kind, degree_strings degs, bs with
  | Some r, Some k, Some ds, Some b =>
      if str_eqb k NC then Some NC
      else match r with
           | None => None                                   (* "Chord symbol must have a root" *)
           | Some r' =>
               Some (r' ++ k ++ flat_map (fun d => 40 :: d ++ [41]) ds ++
                     match b with Some b' => 47 :: b' | None => [] end)
           end
  | _, _, _, _ => None
  end.

(** * One token *)
Definition step (s : st) (t : tok) : st * list ev :=
  match t with
  | TPart c p => (open_part s c p, [])
  | TPartEnd => (if Qle_bool (s_tp s) (s_total s) then s else set_total s (s_tp s), [])
  | TMeasure => (open_measure s, [])
  | TMeasureEnd => let s' := fix_time_signature s in (s', close_measure_events s')
  | TDiv d => (set_div s d, [])
  | TKey f m => (set_m_ksig s (Some (f, if m =? 2 then 1 else 0, s_tp s)), [])
  | TTime b bt =>
      match m_tsig s with
      | None => (set_tsig (set_m_tsig s (Some (b, bt, s_tp s))) (Some (b, bt)), [])
      | Some _ => (raise s E_CONVERSION, [])             (* MultipleTimeSignatureError *)
      end
  | TTranspose c =>
      let s1 := set_transp s c in
      (match m_ksig s with
       | Some (k, m, tm) => set_m_ksig s1 (Some (transpose_key k c, m, tm))
       | None => s1
       end, [])
  | TNote rest chord stp alter oct dur voice ty dots ta tn =>
      (* children in schema order: chord, pitch|rest, duration, voice, type, dot*, time-modification *)
      let s0 := if rest then s else
                  match step_class stp with None => raise s E_CONVERSION | Some _ => s end in
      let pc := match step_class stp with Some c => c | None => 0 end in
      let pitch := if rest then 0 else midi_pitch pc alter oct + s_transp s in
      (* parse_duration *)
      let s1 := if chord then match s_prev s with None => raise s0 E_ATTRIBUTE | Some _ => s0 end else s0 in
      let dur' := if chord then match s_prev s with Some (d, _) => d | None => dur end else dur in
      let sec := Qred (secs_of (s_div s) (s_qpm s) dur') in
      let onset := if chord then match s_prev s with Some (_, tm) => tm | None => s_tp s end else s_tp s in
      let s2 := if chord then s1 else set_tp s1 (Qred (s_tp s + sec)) in
      let s3 := match type_ratio ty with None => raise s2 E_CONVERSION | Some _ => s2 end in
      let tr := match type_ratio ty with Some r => r | None => 1%Q end in
      let ratio := duration_ratio tr dots ta tn in
      let s4 := set_prev s3 (Some (dur', onset)) in
      let s5 := if (voice =? 1) && negb chord then set_m_dur s4 (m_dur s + dur') else s4 in
      (s5, [EvNote (s_part s) rest voice (s_chan s) (s_prog s) pitch onset sec (Qnum ratio) (Z.pos (Qden ratio))])
  | TBackup d => (set_tp s (Qred (s_tp s - Qred (secs_of (s_div s) (s_qpm s) d))), [])
  | TForward d => (set_tp s (Qred (s_tp s + Qred (secs_of (s_div s) (s_qpm s) d))), [])
  | TTempo q => (set_qpm s (norm_qpm q), [EvTempo (s_part s) (s_tp s) (norm_qpm q)])
  | THarmony root kind degs bass offset =>
      match harmony_figure (s_transp s) root kind degs bass with
      | None => (raise s E_CONVERSION, [])                 (* ChordSymbolParseError *)
      | Some fig =>
          let t := match offset with
                   | None => s_tp s
                   | Some o => Qred (s_tp s + Qred (secs_of (s_div s) (s_qpm s) o))
                   end in
          (s, [EvChord t fig])
      end
  end.

Fixpoint run_toks (s : st) (ts : list tok) : st * list ev :=
  match ts with
  | [] => (s, [])
  | t :: r => let '(s1, e1) := step s t in
              let '(s2, e2) := run_toks s1 r in (s2, e1 ++ e2)
  end.

(** * musicxml_to_sequence_proto *)
Record onote := mkONote { o_part : Z; o_voice : Z; o_instr : Z; o_prog : Z; o_pitch : Z;
                          o_start : Q; o_end : Q; o_num : Z; o_den : Z }.
Record oseq := mkOSeq {
  q_tsigs : list (Q * Z * Z);          (* time, numerator, denominator *)
  q_ksigs : list (Q * Z * Z);          (* time, key (proto enum), mode *)
  q_tempos : list (Q * Q);             (* time, qpm *)
  q_notes : list onote;
  q_chords : list (Q * list Z);        (* time, figure (CHORD_SYMBOL text annotations) *)
  q_total : Q }.

Definition Qmax0 (q : Q) : Q := if Qle_bool 0 q then q else 0%Q.

(** [x not in list] with the classes' __eq__ (all three fields; times compared exactly). *)
Definition sig_eqb (a b : Z * Z * Q) : bool :=
  let '(a1, a2, at_) := a in let '(b1, b2, bt) := b in (a1 =? b1) && (a2 =? b2) && Qeq_bool at_ bt.
Fixpoint dedup_acc (acc l : list (Z * Z * Q)) : list (Z * Z * Q) :=
  match l with
  | [] => acc
  | x :: r => if existsb (sig_eqb x) acc then dedup_acc acc r else dedup_acc (acc ++ [x]) r
  end.
Definition dedup := dedup_acc [].

Definition ev_times (es : list ev) : list (Z * Z * Q) :=
  flat_map (fun e => match e with EvTime n d t => [(n, d, t)] | _ => [] end) es.
Definition ev_keys (es : list ev) : list (Z * Z * Q) :=
  flat_map (fun e => match e with EvKey k m t => [(k, m, t)] | _ => [] end) es.
Definition ev_tempos0 (es : list ev) : list (Q * Q) :=
  flat_map (fun e => match e with EvTempo 0 t q => [(t, q)] | _ => [] end) es.
Definition ev_notes (es : list ev) : list onote :=
  flat_map (fun e => match e with
    | EvNote p false v c g pitch onset sec n d =>
        let st_ := Qmax0 onset in [mkONote p v c g pitch st_ (Qred (st_ + sec)) n d]
    | _ => [] end) es.

(** get_chord_symbols: [not in] is identity for ChordSymbol (no __eq__), so nothing is removed. *)
Definition ev_chords (es : list ev) : list (Q * list Z) :=
  flat_map (fun e => match e with EvChord t f => [(t, f)] | _ => [] end) es.

(** music_proto_keys[key + 7] with Python's negative indexing. *)
Definition proto_key (k : Z) : option Z :=
  let n := Z.of_nat (length MUSIC_PROTO_KEYS) in
  let i := k + 7 in
  if (0 <=? i) && (i <? n) then Some (nth (Z.to_nat i) MUSIC_PROTO_KEYS 0)
  else if (- n <=? i) && (i <? 0) then Some (nth (Z.to_nat (i + n)) MUSIC_PROTO_KEYS 0)
  else None.

Fixpoint conv_keys (l : list (Z * Z * Q)) : option (list (Q * Z * Z)) :=
  match l with
  | [] => Some []
  | (k, m, t) :: r =>
      match proto_key k, conv_keys r with
      | Some pk, Some r' => Some ((t, pk, m) :: r')
      | _, _ => None
      end
  end.

Definition run_doc (sc : score) : Z + oseq :=
  let '(s, es) := run_toks init_st (tokens sc) in
  if negb (s_err s =? 0) then inl (s_err s) else
  let ks := dedup (ev_keys es) in
  let ks := match ks with [] => [(0, 0, 0%Q)] | _ => ks end in
  match conv_keys ks with
  | None => inl E_INDEX
  | Some ks' =>
      let tm := ev_tempos0 es in
      let tm := match tm with [] => [(0%Q, s_qpm s)] | _ => tm end in
      inr (mkOSeq (map (fun x => let '(n, d, t) := x in (t, n, d)) (dedup (ev_times es)))
                  ks' tm (ev_notes es) (ev_chords es) (s_total s))
  end.
