(** Model/RenderCommon.v — helpers shared by the [to_sequence] models at STEP level (C06).

    The step-level models describe everything [to_sequence] does up to the multiplication by
    [seconds_per_step]: which notes / chord annotations an event list renders to, with which start
    and end STEPS (absolute: the event sequence's [start_step] is already added).  The float
    layer (Model/RenderFloat.v, Proofs/RenderFloat.v) shows that
    [quantize_to_step (step * seconds_per_step + start_step * seconds_per_step)] gives the step
    back, so that quantizing the rendered sequence at the same resolution yields exactly these
    steps; it also shows that times are strictly monotone in the step, which is all the
    extractors use of [note.start_time] (Performance sorts by [(start_time, pitch)]).

    INTERFACE
    - [rnote pitch vel instr prog drum s e]   a rendered, re-quantized note: quantized steps
      [s], [e]; [n_start]/[n_end] carry the same numbers (any strictly monotone image of the
      step works, see above).
    - [rseq spq ts notes texts qsteps]        the re-quantized sequence as the extractors see it:
      relative quantization with [steps_per_quarter = spq] and the single time signature [ts]
      ([quantize_note_sequence] leaves exactly one, 4/4 when the rendered sequence has none).
    - [max_end notes]                         [total_quantized_steps] contribution of the notes.
    No proofs here. *)
From Coq Require Import ZArith List Bool.
From NS Require Import Base.NoteSeq.
Import ListNotations.
Local Open Scope Z_scope.

Definition rnote (pitch vel instr prog : Z) (drum : bool) (s e : Z) : note :=
  mkNote pitch vel s e instr prog drum s e 0.

Definition rseq (spq : Z) (ts : tsig) (notes : list note) (texts : list text) (qsteps : Z) : seq :=
  mkSeq notes [] [ts] [] texts [] [] [] 0 qsteps spq 0 (0, 0) 0 0.

(** running maximum of the quantized end steps, as [_quantize_notes] computes it from [init] *)
Definition max_end (init : Z) (notes : list note) : Z :=
  fold_left (fun m n => if n_qend n >? m then n_qend n else m) notes init.

Definition last_end (notes : list note) : Z :=
  match rev notes with n :: _ => n_qend n | [] => 0 end.

Definition is_nil {A} (l : list A) : bool := match l with [] => true | _ => false end.
