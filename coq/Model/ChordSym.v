(** Model/ChordSym.v — executable model of note_seq/chord_symbols_lib.py:
    the chord-symbol interpreter (after the regex split) and the namer
    [pitches_to_chord_symbol].  No proofs here.

    Conventions
    - A scale-degree string such as 'b9' is the pair (9, -1) produced by the
      library's own [_parse_degree]; Gen/G15.v is emitted only if every degree
      string of the tables re-renders to itself, so string equality of degrees
      in the Python code is equality of pairs here.
    - Strings that reach the outside (figure, abbreviations, modification
      prefixes) are lists of character codes.
    - A chord symbol is modelled AFTER [_split_chord_symbol]/[_MODIFICATION_REGEX]
      (structured: root, kind abbreviation, list of (prefix, degree), bass).
      Regex lexing is not modelled; the harness lexes with the library's regexes.
    - Python [set] iteration order is observable in [pitches_to_chord_symbol]
      (candidate-root order, order of the relative pitches and therefore of the
      emitted modifications).  [pyset_iter] is the CPython order for sets whose
      members are ints in 0..31 built by successive [add]s: a table of 8 slots
      (slot k mod 8, collision step i -> (5 i + 1) mod 8, no linear probing at
      this size) until the fifth distinct key arrives, then a table of 32 slots
      in which every small int sits at its own index (= ascending order).
    - Exceptions are explicit: [Err E_ChordSymbol] is ChordSymbolError; the other
      constructors are the foreign exceptions the code could raise. *)
From Coq Require Import ZArith List Bool.
From NS Require Import Gen.G15.
Import ListNotations.
Local Open Scope Z_scope.

Inductive exn := E_ChordSymbol | E_Key | E_Index | E_Assertion | E_NoTermination.
Inductive res (A : Type) := Ok (a : A) | Err (e : exn).
Arguments Ok {A} a.
Arguments Err {A} e.

Definition bind {A B} (r : res A) (f : A -> res B) : res B :=
  match r with Ok a => f a | Err e => Err e end.

Definition degree := (Z * Z)%type.           (* (number, alteration) *)
Definition deg_eqb (a b : degree) : bool := (fst a =? fst b) && (snd a =? snd b).

Fixpoint zlist_eqb (a b : list Z) : bool :=
  match a, b with
  | [], [] => true
  | x :: a', y :: b' => (x =? y) && zlist_eqb a' b'
  | _, _ => false
  end.

Definition zmem (x : Z) (l : list Z) : bool := existsb (Z.eqb x) l.
Definition len {A} (l : list A) : Z := Z.of_nat (length l).

(** ** Python dict with int keys, insertion ordered *)
Definition dict := list (Z * Z).

Fixpoint dict_get (d : dict) (k : Z) : option Z :=
  match d with
  | [] => None
  | (k', v) :: r => if k' =? k then Some v else dict_get r k
  end.

(* d[k] = v : overwrite in place or append *)
Fixpoint dict_set (d : dict) (k v : Z) : dict :=
  match d with
  | [] => [(k, v)]
  | (k', v') :: r => if k' =? k then (k', v) :: r else (k', v') :: dict_set r k v
  end.

Fixpoint dict_del (d : dict) (k : Z) : dict :=
  match d with
  | [] => []
  | (k', v') :: r => if k' =? k then r else (k', v') :: dict_del r k
  end.

Definition dict_of_pairs (l : list (Z * Z)) : dict :=
  fold_left (fun d kv => dict_set d (fst kv) (snd kv)) l [].

(** dict keyed by a string, built with [dict(...)]: the LAST binding of a key wins *)
Fixpoint sdict_get {A} (d : list (list Z * A)) (k : list Z) : option A :=
  match d with
  | [] => None
  | (k', v) :: r =>
      match sdict_get r k with
      | Some v' => Some v'
      | None => if zlist_eqb k' k then Some v else None
      end
  end.

(** ** CPython iteration order of a set of small non-negative ints *)
Fixpoint dedup_go (seen : list Z) (l : list Z) : list Z :=
  match l with
  | [] => []
  | x :: r => if zmem x seen then dedup_go seen r else x :: dedup_go (x :: seen) r
  end.
Definition dedup (l : list Z) : list Z := dedup_go [] l.

Fixpoint zinsert (x : Z) (l : list Z) : list Z :=
  match l with
  | [] => [x]
  | y :: r => if x <=? y then x :: l else y :: zinsert x r
  end.
Definition zsort (l : list Z) : list Z := fold_right zinsert [] l.

Definition slot_get (t : list (option Z)) (i : Z) : option Z := nth (Z.to_nat i) t None.
Fixpoint slot_put (t : list (option Z)) (i : nat) (k : Z) : list (option Z) :=
  match t, i with
  | [], _ => []
  | _ :: r, O => Some k :: r
  | s :: r, S j => s :: slot_put r j k
  end.

(* set_add_entry on an 8-slot table, key not present, perturb = hash >> 5 = 0 *)
Fixpoint t8_probe (fuel : nat) (t : list (option Z)) (i : Z) (k : Z) : list (option Z) :=
  match fuel with
  | O => t
  | S f =>
      match slot_get t i with
      | None => slot_put t (Z.to_nat i) k
      | Some _ => t8_probe f t ((5 * i + 1) mod 8) k
      end
  end.

Definition t8_empty : list (option Z) := [None; None; None; None; None; None; None; None].

Definition t8_order (ks : list Z) : list Z :=
  let t := fold_left (fun t k => t8_probe 8 t (k mod 8) k) ks t8_empty in
  flat_map (fun s => match s with Some k => [k] | None => [] end) t.

(** [list(set(x for x in l))] for ints in 0..31 *)
Definition pyset_iter (l : list Z) : list Z :=
  let ks := dedup l in
  if len ks <=? 4 then t8_order ks else zsort ks.

(** ** Pitch classes: [_transpose_pitch_class], [_pitch_class_to_string], [_pitch_class_to_midi] *)
Definition CH_A : Z := 65.
Definition CH_C : Z := 67.
Definition CH_SHARP : Z := 35.
Definition CH_FLAT : Z := 98.

Definition next_step (step : Z) : Z := CH_A + (step - CH_A + 1) mod 7.

Fixpoint transpose_loop (fuel : nat) (step amount : Z) : res (Z * Z) :=
  match fuel with
  | O => Err E_NoTermination
  | S f =>
      match dict_get STEPS_ABOVE step with
      | None => Err E_Key
      | Some above =>
          if amount >=? above then transpose_loop f (next_step step) (amount - above)
          else Ok (step, amount)
      end
  end.

Definition transpose_pitch_class (step alter amount : Z) : res (Z * Z) :=
  bind (transpose_loop 13 step (amount mod 12)) (fun sa =>
    let '(step, amount) := sa in
    if amount >? 0 then
      if alter >=? 0 then
        match dict_get STEPS_ABOVE step with
        | None => Err E_Key
        | Some above => Ok (next_step step, alter - (above - amount))
        end
      else Ok (step, alter + amount)
    else Ok (step, alter)).

Definition pitch_class_to_string (step alter : Z) : list Z :=
  step :: repeat (if alter >=? 0 then CH_SHARP else CH_FLAT) (Z.to_nat (Z.abs alter)).

Definition pitch_class_to_midi (step alter : Z) : res Z :=
  match dict_get STEPS_MIDI step with
  | None => Err E_Key
  | Some m => Ok ((m + alter) mod 12)
  end.

(** ** The interpreter *)
Record sym := mkSym {
  s_root : Z * Z;                       (* (step letter, alteration) *)
  s_kind : list Z;                      (* kind abbreviation *)
  s_mods : list (list Z * Z);           (* (prefix, degree number) in order *)
  s_bass : option (Z * Z)
}.

Definition KINDS_BY_ABBREV : list (list Z * list degree) :=
  flat_map (fun k => map (fun ab => (ab, snd k)) (fst k)) CHORD_KINDS.

(* _parse_kind *)
Definition parse_kind (kind : list Z) : res dict :=
  match sdict_get KINDS_BY_ABBREV kind with
  | None => Err E_Key
  | Some degs => Ok (dict_of_pairs degs)
  end.

(* one modification: _add_scale_degree / _subtract_scale_degree / _alter_scale_degree *)
Definition apply_mod (d : dict) (fn alter degree : Z) : res dict :=
  if fn =? 0 then
    match dict_get d degree with
    | Some _ => Err E_ChordSymbol
    | None => Ok (dict_set d degree (if degree =? 7 then alter - 1 else alter))
    end
  else if fn =? 1 then
    match dict_get d degree with
    | None => Err E_ChordSymbol
    | Some _ => Ok (dict_del d degree)
    end
  else
    match dict_get d degree with
    | Some a => Ok (dict_set d degree (a + alter))
    | None => Ok (dict_set d degree alter)
    end.

(* _parse_modifications: every prefix must be a key of _DEGREE_MODIFICATIONS (a
   prefix outside the table cannot come out of the regex split: the whole figure
   is then "Unable to parse"). *)
Fixpoint lookup_mods (mods : list (list Z * Z)) : res (list (Z * Z * Z)) :=
  match mods with
  | [] => Ok []
  | (p, degree) :: r =>
      match sdict_get DEGREE_MODIFICATIONS p with
      | None => Err E_ChordSymbol
      | Some (fn, alter) => bind (lookup_mods r) (fun l => Ok ((fn, alter, degree) :: l))
      end
  end.

Fixpoint apply_modifications (d : dict) (ms : list (Z * Z * Z)) : res dict :=
  match ms with
  | [] => Ok d
  | (fn, alter, degree) :: r => bind (apply_mod d fn alter degree) (fun d' => apply_modifications d' r)
  end.

(* degrees component of _parse_chord_symbol *)
Definition sym_degrees (s : sym) : res dict :=
  bind (lookup_mods (s_mods s)) (fun ms =>
  bind (parse_kind (s_kind s)) (fun d =>
  apply_modifications d ms)).

Definition sym_root (s : sym) : res Z := pitch_class_to_midi (fst (s_root s)) (snd (s_root s)).

Definition sym_bass (s : sym) : res Z :=
  match s_bass s with
  | Some b => pitch_class_to_midi (fst b) (snd b)
  | None => sym_root s
  end.

Fixpoint degree_pitches (root : Z) (d : dict) : res (list Z) :=
  match d with
  | [] => Ok []
  | (degree, alter) :: r =>
      match dict_get DEGREE_OFFSETS ((degree - 1) mod 7 + 1) with
      | None => Err E_Key
      | Some off => bind (degree_pitches root r) (fun l => Ok ((root + off + alter) mod 12 :: l))
      end
  end.

(* chord_symbol_pitches *)
Definition sym_pitches (s : sym) : res (list Z) :=
  bind (sym_degrees s) (fun d =>
  bind (sym_root s) (fun root => degree_pitches root d)).

(* chord_symbol_quality *)
Definition sym_quality (s : sym) : res Z :=
  bind (sym_degrees s) (fun d =>
    match dict_get d 1, dict_get d 3, dict_get d 5 with
    | Some a, Some b, Some c =>
        if (a =? 0) && (b =? 0) && (c =? 0) then Ok CHORD_QUALITY_MAJOR
        else if (a =? 0) && (b =? -1) && (c =? 0) then Ok CHORD_QUALITY_MINOR
        else if (a =? 0) && (b =? 0) && (c =? 1) then Ok CHORD_QUALITY_AUGMENTED
        else if (a =? 0) && (b =? -1) && (c =? -1) then Ok CHORD_QUALITY_DIMINISHED
        else Ok CHORD_QUALITY_OTHER
    | _, _, _ => Ok CHORD_QUALITY_OTHER
    end).

(** ** The namer *)
Definition kind := (list Z * list degree)%type.     (* (first abbreviation, degrees) *)

Definition deg_mem (x : degree) (l : list degree) : bool := existsb (deg_eqb x) l.

(* _largest_chord_kind_from_degrees; abbreviations are unique over the table
   (checked when G15.v is generated), so _CHORD_KINDS_BY_ABBREV[abbrev] is the
   degree list carried along here. *)
Definition largest_kind_from_degrees (degrees : list degree) : res (option kind) :=
  fold_left (fun acc ck =>
      bind acc (fun best =>
        let best_len := match best with Some b => len (snd b) | None => 0 end in
        if len (snd ck) <=? best_len then Ok best
        else if forallb (fun d => deg_mem d degrees) (snd ck) then
          match fst ck with
          | [] => Err E_Index
          | ab :: _ => Ok (Some (ab, snd ck))
          end
        else Ok best))
    CHORD_KINDS (Ok None).

(* itertools.product *)
Fixpoint product {A} (ls : list (list A)) : list (list A) :=
  match ls with
  | [] => [[]]
  | x :: r => let pr := product r in flat_map (fun a => map (cons a) pr) x
  end.

Fixpoint has_dup (l : list Z) : bool :=
  match l with
  | [] => false
  | x :: r => zmem x r || has_dup r
  end.

Fixpoint scale_degrees_of (rel : list Z) : res (list (list degree)) :=
  match rel with
  | [] => Ok []
  | p :: r =>
      match nth_error SCALE_DEGREES (Z.to_nat p) with
      | None => Err E_Index
      | Some ds => bind (scale_degrees_of r) (fun l => Ok (ds :: l))
      end
  end.

(* _largest_chord_kind_from_relative_pitches; [rel] in set iteration order *)
Definition largest_kind_from_rel (rel : list Z) : res (option kind * list degree) :=
  bind (scale_degrees_of rel) (fun sds =>
  fold_left (fun acc degrees =>
      bind acc (fun best =>
        if has_dup (map fst degrees) then Ok best
        else
          bind (largest_kind_from_degrees degrees) (fun ck =>
            match fst best with
            | None => Ok (ck, degrees)
            | Some b =>
                match ck with
                | None => Err E_Key                 (* _CHORD_KINDS_BY_ABBREV[None] *)
                | Some c => if len (snd c) >? len (snd b) then Ok (ck, degrees) else Ok best
                end
            end)))
    (product sds) (Ok (None, []))).

Definition rel_of (cands : list Z) (root : Z) : list Z :=
  pyset_iter (map (fun p => (p - root) mod 12) cands).

(* the "try each pitch class in turn as root" loop, generic in the per-root search *)
Definition best_t := option (Z * kind * list degree).

Definition choose_root (f : Z -> res (option kind * list degree)) (cands : list Z) : res best_t :=
  fold_left (fun acc root =>
      bind acc (fun best =>
        bind (f root) (fun r =>
          match fst r with
          | None => Ok best
          | Some k =>
              match best with
              | None => Ok (Some (root, k, snd r))
              | Some (_, bk, _) =>
                  if len (snd k) >? len (snd bk) then Ok (Some (root, k, snd r)) else Ok best
              end
          end)))
    cands (Ok None).

Fixpoint dec_digits (fuel : nat) (n : Z) (acc : list Z) : list Z :=
  match fuel with
  | O => acc
  | S f => if n <? 10 then (48 + n) :: acc else dec_digits f (n / 10) ((48 + n mod 10) :: acc)
  end.
Definition dec_string (n : Z) : list Z := dec_digits 40 n [].   (* '%d' of a non-negative int below 10^40 *)

Definition alter_str (alter : Z) : list Z :=
  repeat (if alter >=? 0 then CH_SHARP else CH_FLAT) (Z.to_nat (Z.abs alter)).

Definition STR_add : list Z := [97; 100; 100].
Definition STR_no : list Z := [110; 111].

(* _degrees_to_modifications, as the list of (prefix, degree) it writes.
   [fix2 = true]: with notes/C15-fix-2.diff (an added 7th is spelled relative to the flat 7th, as the
   interpreter reads it); [fix2 = false]: the code as found. *)
Definition degrees_to_modifications_v (fix2 : bool) (chord_degrees target_degrees : list degree)
  : res (list (list Z * Z)) :=
  let degrees := dict_of_pairs chord_degrees in
  let target := dict_of_pairs target_degrees in
  bind
    (fold_left (fun acc kv =>
        bind acc (fun out =>
          let '(degree, talter) := kv in
          match dict_get degrees degree with
          | None =>
              let alter := if fix2 && (degree =? 7) then talter + 1 else talter in
              if negb (alter =? 0) && (degree >? 7)
              then Ok (out ++ [(alter_str alter, degree)])
              else Ok (out ++ [(STR_add ++ alter_str alter, degree)])
          | Some a =>
              if a =? talter then Ok out
              else if talter =? 0 then Err E_Assertion
              else Ok (out ++ [(alter_str talter, degree)])
          end))
      target (Ok []))
    (fun out =>
      Ok (out ++ flat_map (fun kv => match dict_get target (fst kv) with
                                     | None => [(STR_no, fst kv)]
                                     | Some _ => []
                                     end) degrees)).

Inductive figure := NoChord | Fig (s : sym).

Definition degrees_to_modifications := degrees_to_modifications_v true.

(* the part of pitches_to_chord_symbol after "best_root is None".
   [fix1 = true]: with notes/C15-fix-1.diff (_SCALE_DEGREES indexed by the bass relative to the root);
   [fix1 = false]: the code as found (indexed by the absolute bass pitch class). *)
Definition finish_v (fix1 fix2 : bool) (bass : Z) (best : best_t) : res figure :=
  match best with
  | None => Err E_ChordSymbol
  | Some (best_root, k, best_degrees) =>
      bind (transpose_pitch_class CH_C 0 best_root) (fun rootpc =>
      match nth_error SCALE_DEGREES (Z.to_nat (if fix1 then (bass - best_root) mod 12 else bass)) with
      | None => Err E_Index
      | Some bass_degrees =>
          let best_chord_degrees := snd k in
          let target :=
            if forallb (fun d => negb (deg_mem d bass_degrees)) best_chord_degrees
            then filter (fun d => negb (deg_mem d bass_degrees)) best_degrees
            else best_degrees in
          bind (degrees_to_modifications_v fix2 best_chord_degrees target) (fun mods =>
          if bass =? best_root then Ok (Fig (mkSym rootpc (fst k) mods None))
          else bind (transpose_pitch_class CH_C 0 bass) (fun basspc =>
               Ok (Fig (mkSym rootpc (fst k) mods (Some basspc)))))
      end)
  end.

(* the model follows the repaired code *)
Definition finish := finish_v true true.

Definition name_with (f : Z -> res (option kind * list degree)) (bass : Z) (others : list Z) : res figure :=
  bind (choose_root f (bass :: others)) (finish bass).

Definition name_core (bass : Z) (others : list Z) : res figure :=
  let cands := bass :: others in
  name_with (fun root => largest_kind_from_rel (rel_of cands root)) bass others.

(* [order] is the iteration order of set(p % 12 for p in pitches) *)
Definition name_ord (order : list Z) (bass : Z) : res figure :=
  name_core bass (pyset_iter (filter (fun x => negb (x =? bass)) order)).

Definition list_min (p0 : Z) (l : list Z) : Z := fold_left Z.min l p0.
Definition pcs_of (pitches : list Z) : list Z := map (fun p => p mod 12) pitches.

(* pitches_to_chord_symbol *)
Definition name_pitches (pitches : list Z) : res figure :=
  match pitches with
  | [] => Ok NoChord
  | p0 :: _ => name_ord (pyset_iter (pcs_of pitches)) (list_min p0 pitches mod 12)
  end.

(* pitches_to_chord_symbol with either repair switched off ([false false] = the code as found);
   [name_pitches_v true true = name_pitches] by definition *)
Definition name_pitches_v (fix1 fix2 : bool) (pitches : list Z) : res figure :=
  match pitches with
  | [] => Ok NoChord
  | p0 :: _ =>
      let bass := list_min p0 pitches mod 12 in
      let others := pyset_iter (filter (fun x => negb (x =? bass)) (pyset_iter (pcs_of pitches))) in
      let cands := bass :: others in
      bind (choose_root (fun root => largest_kind_from_rel (rel_of cands root)) cands) (finish_v fix1 fix2 bass)
  end.

(** ** Rendering (the string the function returns) *)
Definition render_mod (m : list Z * Z) : list Z := [40] ++ fst m ++ dec_string (snd m) ++ [41].

Definition render_sym (s : sym) : list Z :=
  pitch_class_to_string (fst (s_root s)) (snd (s_root s)) ++ s_kind s ++ flat_map render_mod (s_mods s) ++
  match s_bass s with
  | None => []
  | Some b => 47 :: pitch_class_to_string (fst b) (snd b)
  end.

Definition render (f : figure) : list Z :=
  match f with NoChord => NO_CHORD | Fig s => render_sym s end.
