(** Model/EventsPoly.v — executable models of the two EventSequence classes
    whose length is not stored but computed: PianorollSequence
    (pianoroll_lib.py:31-166) and BasePerformance / Performance /
    MetricPerformance (performance_lib.py:128-319), as state machines over
    edit operations.  No proofs here. *)
From Coq Require Import ZArith List Bool.
From NS Require Import Gen.G17 Model.Events.
Import ListNotations.
Local Open Scope Z_scope.

(* ------------------------------------------------------------------ *)
Module Pianoroll.
  Record st : Type := mk {
    events : list (list Z);   (* _events: tuples of active pitches *)
    start : Z;                (* _start_step *)
    minp : Z;                 (* _min_pitch *)
    maxp : Z                  (* _max_pitch *)
  }.

  (** append(event, shift_range) *)
  Definition shift_event (s : st) (e : list Z) : list Z :=
    map (fun p => p - minp s) (filter (fun p => (minp s <=? p) && (p <=? maxp s)) e).

  Definition append (s : st) (e : list Z) (shift : bool) : st :=
    mk (events s ++ [if shift then shift_event s e else e]) (start s) (minp s) (maxp s).

  Definition num_steps (s : st) : Z := zlen (events s).
  Definition len (s : st) : Z := zlen (events s).
  Definition stop (s : st) : Z := start s + num_steps s.
  Definition steps (s : st) : list Z := py_range (start s) (stop s).
  Definition iter (s : st) : list (list Z) := events s.
  Definition getitem (s : st) (i : Z) : option (list Z) := py_index (events s) i.

  Definition set_length (s : st) (n : Z) (from_left : bool) : st * outcome :=
    if from_left then (s, NotImplementedError) else
    let ns := num_steps s in
    let ev :=
      if ns <? n then events s ++ repeat [] (Z.to_nat (n - ns))
      else if n <? ns then py_del_slice (events s) (Some n) None
      else events s in
    let s' := mk ev (start s) (minp s) (maxp s) in
    if num_steps s' =? n then (s', Done) else (s', AssertionError).

  (** PianorollSequence(events_list=es, steps_per_quarter=_, start_step=s0,
      min_pitch, max_pitch, shift_range) *)
  Definition init (es : list (list Z)) (s0 mn mx : Z) (shift : bool) : st :=
    let s := fold_left (fun s e => append s e shift) es (mk [] s0 mn mx) in
    mk (events s) s0 mn mx.

  Inductive op : Type :=
  | PAppend (e : list Z) (shift : bool)
  | PSetLength (n : Z) (from_left : bool)
  | PDeepcopy
  | PReinit (es : list (list Z)) (s0 mn mx : Z) (shift : bool).

  Definition step (s : st) (o : op) : st * outcome :=
    match o with
    | PAppend e sh => (append s e sh, Done)
    | PSetLength n fl => set_length s n fl
    | PDeepcopy => (s, Done)
    | PReinit es s0 mn mx sh => (init es s0 mn mx sh, Done)
    end.

  Definition run_ops (s : st) (ops : list op) : st :=
    fold_left (fun s o => fst (step s o)) ops s.

  Fixpoint trace (s : st) (ops : list op) : list (st * outcome) :=
    match ops with
    | [] => []
    | o :: r => let so := step s o in so :: trace (fst so) r
    end.
End Pianoroll.

(* ------------------------------------------------------------------ *)
Module Perf.
  Definition ev : Type := (Z * Z)%type.      (* (event_type, event_value) *)

  (** PerformanceEvent._check_event *)
  Definition ev_valid (e : ev) : bool :=
    let '(t, v) := e in
    if (t =? EV_NOTE_ON) || (t =? EV_NOTE_OFF) then (PERF_MIN_PITCH <=? v) && (v <=? PERF_MAX_PITCH)
    else if t =? EV_TIME_SHIFT then 0 <=? v
    else if t =? EV_DURATION then 1 <=? v
    else if t =? EV_VELOCITY then (1 <=? v) && (v <=? MAX_NUM_VELOCITY_BINS)
    else false.

  Definition is_shift (e : ev) : bool := fst e =? EV_TIME_SHIFT.
  Definition shift (v : Z) : ev := (EV_TIME_SHIFT, v).

  Record st : Type := mk {
    events : list ev;     (* _events *)
    start : Z;            (* _start_step *)
    max_shift : Z         (* _max_shift_steps *)
  }.

  (** num_steps: the sum of the time-shift values *)
  Fixpoint sum_shifts (l : list ev) : Z :=
    match l with
    | [] => 0
    | e :: r => (if is_shift e then snd e else 0) + sum_shifts r
    end.

  Definition num_steps (s : st) : Z := sum_shifts (events s).
  Definition stop (s : st) : Z := start s + num_steps s.
  Definition len (s : st) : Z := zlen (events s).
  Definition iter (s : st) : list ev := events s.
  Definition getitem (s : st) (i : Z) : option ev := py_index (events s) i.

  (** steps: the running step before each event *)
  Fixpoint steps_from (step : Z) (l : list ev) : list Z :=
    match l with
    | [] => []
    | e :: r => step :: steps_from (if is_shift e then step + snd e else step) r
    end.
  Definition steps (s : st) : list Z := steps_from (start s) (events s).

  (** the two loops at the end of _append_steps.  [fuel] bounds the number of
      iterations of the `while`; Proofs/EventsPoly.v shows that with
      max_shift >= 1 the result does not depend on it once fuel >= n. *)
  Fixpoint shift_loop (fuel : nat) (m n : Z) : list ev :=
    match fuel with
    | O => if 0 <? n then [shift n] else []
    | S f =>
        if m <=? n then shift m :: shift_loop f m (n - m)
        else if 0 <? n then [shift n] else []
    end.

  Definition append_steps (m : Z) (l : list ev) (n : Z) : list ev :=
    let '(l1, n1) :=
      match rev l with
      | e :: r' =>
          if is_shift e && (snd e <? m) then
            let added := Z.min n (m - snd e) in
            (rev r' ++ [shift (snd e + added)], n - added)
          else (l, n)
      | [] => (l, n)
      end in
    l1 ++ shift_loop (Z.to_nat n1) m n1.

  (** _trim_steps over the reversed event list (last event first) *)
  Fixpoint trim_rev (l : list ev) (trimmed num : Z) : list ev :=
    match l with
    | [] => []
    | e :: r =>
        if trimmed <? num then
          if is_shift e then
            if num <? trimmed + snd e then shift (snd e - num + trimmed) :: r
            else trim_rev r (trimmed + snd e) num
          else trim_rev r trimmed num
        else l
    end.
  Definition trim_steps (l : list ev) (num : Z) : list ev := rev (trim_rev (rev l) 0 num).

  Definition set_length (s : st) (n : Z) (from_left : bool) : st * outcome :=
    if from_left then (s, NotImplementedError) else
    let ns := num_steps s in
    let ev :=
      if ns <? n then append_steps (max_shift s) (events s) (n - ns)
      else if n <? ns then trim_steps (events s) (ns - n)
      else events s in
    let s' := mk ev (start s) (max_shift s) in
    if num_steps s' =? n then (s', Done) else (s', AssertionError).

  (** PerformanceEvent(t, v) followed by append: an invalid event is a
      ValueError from the event's own validator *)
  Definition append (s : st) (e : ev) : st * outcome :=
    if ev_valid e then (mk (events s ++ [e]) (start s) (max_shift s), Done) else (s, ValueError).

  Definition truncate (s : st) (k : Z) : st :=
    mk (py_slice (events s) None (Some k)) (start s) (max_shift s).

  Inductive op : Type :=
  | FAppend (t v : Z)
  | FSetLength (n : Z) (from_left : bool)
  | FTruncate (k : Z)
  | FDeepcopy
  | FReinit (s0 m nvb : Z). (* Performance(start_step=s0, max_shift_steps=m, num_velocity_bins=nvb) *)

  Definition step (s : st) (o : op) : st * outcome :=
    match o with
    | FAppend t v => append s (t, v)
    | FSetLength n fl => set_length s n fl
    | FTruncate k => (truncate s k, Done)
    | FDeepcopy => (s, Done)
    | FReinit s0 m nvb =>
        (* BasePerformance.__init__: ValueError if num_velocity_bins exceeds the number of MIDI velocities *)
        if MAX_NUM_VELOCITY_BINS <? nvb then (s, ValueError) else (mk [] s0 m, Done)
    end.

  Definition run_ops (s : st) (ops : list op) : st :=
    fold_left (fun s o => fst (step s o)) ops s.

  Fixpoint trace (s : st) (ops : list op) : list (st * outcome) :=
    match ops with
    | [] => []
    | o :: r => let so := step s o in so :: trace (fst so) r
    end.
End Perf.
