(** Model/NotePerfEnc.v — performance_encoder_decoder (C08):
      ModuloPerformanceEventSequenceEncoderDecoder (labels by the performance
      one-hot of Model/OneHot.v, inputs by PerformanceModuloEncoding), and
      NotePerformanceEventSequenceEncoderDecoder (6-way segmented labels).

    A performance event is a pair (event_type, event_value).  The cos/sin
    entries of the modulo input are not modelled as floats: [mp_input] returns
    the layout — vector length, position of the valid bit, which lookup table
    and which row are copied — and the harness rebuilds the vector from it.

    [np_num_steps] follows the code WITH notes/C08-fix-2.diff applied
    ([event = None] before the loop); the unpatched code raises
    UnboundLocalError on the empty label list. *)
From Coq Require Import ZArith List Bool.
From NS Require Import Gen.G09 Gen.G08 Model.OneHot Model.EncDec.
Import ListNotations.
Local Open Scope Z_scope.

Definition pevent : Type := (Z * Z)%type.      (* (event_type, event_value) *)

(** * ModuloPerformanceEventSequenceEncoderDecoder *)
Definition mrange : Type := (Z * Z * Z * Z)%type.   (* type, min, max, encoder width *)

Definition mp_ranges (nb ms : Z) : list mrange :=
  K_MODULO_EVENT_RANGES ++ [(EV_TIME_SHIFT, 1, ms, K_MODULO_TIME_SHIFT_WIDTH)]
  ++ (if 0 <? nb then [(EV_VELOCITY, 1, nb, K_MODULO_VELOCITY_WIDTH)] else []).

Definition mp_input_size (nb ms : Z) : Z :=
  zsum (map (fun r : mrange => snd r) (mp_ranges nb ms)).

(* encode_modulo_event: (offset, value - min_value) of the first range of that type *)
Fixpoint mp_encode_modulo (rs : list mrange) (off ty v : Z) : option (Z * Z) :=
  match rs with
  | [] => None
  | (t, mn, _, w) :: r => if ty =? t then Some (off, v - mn) else mp_encode_modulo r (off + w) ty v
  end.

(* layout of the input vector: [size; offset of the valid bit; table; row; row mod 12]
   table 0 = note (+ pitch class), 1 = time shift, 2 = velocity *)
Definition mp_input (nb ms : Z) (es : list pevent) (p : Z) : option (list Z) :=
  e <- py_nth es p ;;
  ov <- mp_encode_modulo (mp_ranges nb ms) 0 (fst e) (snd e) ;;
  let '(off, v) := ov in
  let size := mp_input_size nb ms in
  (* input_[offset] = 1.0 on a list of length size *)
  chk <- py_set (zeros size) off 1 ;;
  if (fst e =? EV_NOTE_ON) || (fst e =? EV_NOTE_OFF) then
    if (v <? 0) || (144 <=? v) then None                 (* embed_note *)
    else Some [size; off; 0; v; v mod 12]
  else if fst e =? EV_TIME_SHIFT then
    if (v <? 0) || (ms <=? v) then None                  (* embed_time_shift *)
    else Some [size; off; 1; v; 0]
  else
    if (v <? 0) || (nb <=? v) then None                  (* embed_velocity *)
    else Some [size; off; 2; v; 0].

Definition mp_oh_ranges (nb ms : Z) : list range :=
  perf_ranges nb ms K_PERF_MIN_PITCH K_PERF_MAX_PITCH.

Definition mp_num_classes (nb ms : Z) : Z := oh_num_classes (mp_oh_ranges nb ms).

Definition mp_label (nb ms : Z) (es : list pevent) (p : Z) : option Z :=
  e <- py_nth es p ;; oh_encode (mp_oh_ranges nb ms) 0 (fst e) (snd e).

Definition mp_decode (nb ms : Z) (c : Z) (_ : list pevent) : option pevent :=
  oh_decode (mp_oh_ranges nb ms) 0 c.

(* PerformanceOneHotEncoding.event_to_num_steps *)
Definition perf_steps (e : pevent) : Z := if fst e =? EV_TIME_SHIFT then snd e else 0.

Definition mp (nb ms : Z) : encdec pevent Z :=
  mkEncDec (mp_input_size nb ms) (mp_input nb ms) (mp_label nb ms) (mp_decode nb ms)
           (steps_by_generation (mp_decode nb ms) perf_steps).

(** * NotePerformanceEventSequenceEncoderDecoder *)
(* min(segments_indices, key=...) returns the FIRST minimal element *)
Fixpoint first_min_from (key : Z -> Z) (best : Z) (l : list Z) : Z :=
  match l with
  | [] => best
  | x :: r => first_min_from key (if key x <? key best then x else best) r
  end.

(* optimal_num_segments(steps); None = min() of an empty list (ValueError).
   The key i + steps / i is a float in the code; i divides steps, so it is an
   exact integer. *)
Definition optimal_num_segments (steps : Z) : option Z :=
  match filter (fun i => steps mod i =? 0) (map (fun i => i + 1) (zrange (steps - 1))) with
  | [] => None
  | x :: r => Some (first_min_from (fun i => i + steps / i) x r)
  end.

Record np_cfg : Type := mkNp {
  np_min_pitch : Z;
  np_shift_seg : Z; np_shift_per : Z;
  np_dur_seg : Z; np_dur_per : Z;
  np_classes : list Z                      (* self._num_classes *)
}.

Inductive np_result : Type := NpValueError | NpAssert | NpOk (c : np_cfg).

Definition np_make (nvb max_shift max_dur min_pitch max_pitch : Z) : np_result :=
  match optimal_num_segments (max_shift + 1) with
  | None => NpValueError
  | Some ss =>
      if negb (1 <? ss) then NpAssert else
      match optimal_num_segments max_dur with
      | None => NpValueError
      | Some ds =>
          if negb (1 <? ds) then NpAssert else
          let sp := (max_shift + 1) / ss in
          let dp := max_dur / ds in
          NpOk (mkNp min_pitch ss sp ds dp [ss; sp; max_pitch - min_pitch + 1; nvb; ds; dp])
      end
  end.

(* a note-performance event: (TIME_SHIFT, NOTE_ON, VELOCITY, DURATION) performance events *)
Definition npevent : Type := (pevent * pevent * pevent * pevent)%type.

Section NotePerf.
  Variable c : np_cfg.

  Definition np_input_size : Z := zsum (np_classes c).

  Definition np_encode_event (e : npevent) : list Z :=
    let '(ts, on, vel, dur) := e in
    let d := snd dur - 1 in
    [snd ts / np_shift_per c; snd ts mod np_shift_per c; snd on - np_min_pitch c; snd vel - 1;
     d / np_dur_per c; d mod np_dur_per c].

  (* default_event_label: _encode_event of (TIME_SHIFT 0, NOTE_ON 60, VELOCITY 1, DURATION 1) *)
  Definition np_default_event : npevent :=
    ((EV_TIME_SHIFT, 0), (EV_NOTE_ON, 60), (EV_VELOCITY, 1), (EV_DURATION, 1)).
  Definition np_default_label : list Z := np_encode_event np_default_event.

  Definition np_label (es : list npevent) (p : Z) : option (list Z) :=
    e <- py_nth es p ;; Some (np_encode_event e).

  (* one_hot = [0.0] * num_classes[i]; one_hot[sub] = 1.0; np.hstack(one_hots) *)
  Definition np_input (es : list npevent) (p : Z) : option (list Z) :=
    e <- py_nth es p ;;
    hs <- opt_all (map (fun sc : Z * Z => py_set (zeros (snd sc)) (fst sc) 1)
                       (combine (np_encode_event e) (np_classes c))) ;;
    Some (concat hs).

  Definition np_decode (l : list Z) (_ : list npevent) : option npevent :=
    i0 <- py_nth l 0 ;; i1 <- py_nth l 1 ;; i2 <- py_nth l 2 ;;
    i3 <- py_nth l 3 ;; i4 <- py_nth l 4 ;; i5 <- py_nth l 5 ;;
    let ts := i0 * np_shift_per c + i1 in
    let pitch := i2 + np_min_pitch c in
    let vel := i3 + 1 in
    let dur := i4 * np_dur_per c + i5 + 1 in
    (* the PerformanceEvent constructor validates its value (ValueError) *)
    if (0 <=? ts) && (K_PERF_MIN_PITCH <=? pitch) && (pitch <=? K_PERF_MAX_PITCH)
       && (1 <=? vel) && (vel <=? K_MAX_NUM_VELOCITY_BINS) && (1 <=? dur)
    then Some ((EV_TIME_SHIFT, ts), (EV_NOTE_ON, pitch), (EV_VELOCITY, vel), (EV_DURATION, dur))
    else None.

  Definition np_shift_of (e : npevent) : Z := let '(ts, _, _, _) := e in snd ts.
  Definition np_dur_of (e : npevent) : Z := let '(_, _, _, dur) := e in snd dur.

  (* steps += event[0].event_value for every label; + event[3].event_value of the last *)
  Definition np_num_steps (ls : list (list Z)) : option Z :=
    evs <- opt_all (map (fun l => np_decode l []) ls) ;;
    Some (zsum (map np_shift_of evs) +
          match rev evs with [] => 0 | e :: _ => np_dur_of e end).

  Definition np : encdec npevent (list Z) :=
    mkEncDec np_input_size np_input np_label np_decode np_num_steps.
End NotePerf.
