(** Model/FqDrums.v — drums_lib.DrumTrack.from_quantized_sequence (C07, reused by C06).

    INTERFACE
    - an event is the [list Z] of the pitches of one step's group in storage order (the Python
      event is the frozenset of that list; compare as sets).  The pad event is [[]].
    - [dr_params]: search_start_step, gap_bars, pad_end, ignore_is_drum.
    - [dr_result]: [de_events], [de_start], [de_end], [de_spb], [de_spq].
    - [dr_from_quantized p s : res dr_result]; errors: E_QSTATUS, E_NONINT. *)
From Coq Require Import ZArith List Bool.
From NS Require Import Base.NoteSeq Gen.G07 Model.FqCommon.
Import ListNotations.
Local Open Scope Z_scope.

Record dr_params := mkDrParams {
  dp_search_start : Z; dp_gap_bars : Z; dp_pad_end : bool; dp_ignore_is_drum : bool }.

Record dr_result := mkDrResult {
  de_events : list (list Z); de_start : Z; de_end : Z; de_spb : Z; de_spq : Z }.

Definition dr_keep (p : dr_params) (n : note) : bool :=
  (n_drum n || dp_ignore_is_drum p) && negb (n_vel n =? 0) && (dp_search_start p <=? n_qstart n).

(** grouped_notes[note.quantized_start_step].append(note): an association list in first-
    insertion order (a Python dict), each group in storage order. *)
Fixpoint dr_group_add (k p : Z) (g : list (Z * list Z)) : list (Z * list Z) :=
  match g with
  | [] => [(k, [p])]
  | (k', ps) :: r => if k' =? k then (k', ps ++ [p]) :: r else (k', ps) :: dr_group_add k p r
  end.

Definition dr_groups (ns : list note) : list (Z * list Z) :=
  fold_left (fun g n => dr_group_add (n_qstart n) (n_pitch n) g) ns [].

Definition dr_key_le (a b : Z * list Z) : bool := fst a <=? fst b.

(** sorted(grouped_notes.items(), key=itemgetter(0)) *)
Definition dr_sorted_groups (p : dr_params) (ns : list note) : list (Z * list Z) :=
  isort dr_key_le (dr_groups (filter (dr_keep p) ns)).

(** self.set_length(start_index + 1); self._events[start_index] = pitches *)
Definition dr_put (si : Z) (ps : list Z) (evs : list (list Z)) : list (list Z) :=
  zfirstn si (set_length [] (si + 1) evs) ++ [ps].

(** The loop; state = (events, gap_start_index). *)
Fixpoint dr_loop (gap_steps tss : Z) (gs : list (Z * list Z)) (evs : list (list Z)) (gap_start : Z)
  : list (list Z) :=
  match gs with
  | [] => evs
  | (start, ps) :: r =>
      let si := start - tss in
      if negb (len evs =? 0) && (gap_steps <=? si - gap_start) then evs       (* break *)
      else dr_loop gap_steps tss r (dr_put si ps evs) (si + 1)
  end.

Definition dr_from_quantized (p : dr_params) (s : seq) : res dr_result :=
  bind (steps_per_bar s) (fun spb =>
  match dr_sorted_groups p (s_notes s) with
  | [] => Ok (mkDrResult [] 0 0 spb (s_spq s))
  | ((k0, _) :: _) as gs =>
      let tss := bar_start k0 (dp_search_start p) spb in
      let evs := dr_loop (dp_gap_bars p * spb) tss gs [] 0 in
      match evs with
      | [] => Ok (mkDrResult [] 0 0 spb (s_spq s))
      | _ :: _ =>
          let n := if dp_pad_end p then pad_len (len evs) spb else len evs in
          Ok (mkDrResult (set_length [] n evs) tss (tss + n) spb (s_spq s))
      end
  end).
