(** Model/ChordTranspose.v — chord-symbol transposition on *structured* symbols (C10):
    chord_symbols_lib._transpose_pitch_class, transpose_chord_symbol,
    _pitch_class_to_midi, chord_symbol_root / _bass / _pitches / _quality
    (the part of _parse_chord_symbol that runs after the regex split),
    chords_lib.ChordProgression.transpose.

    A chord symbol is modelled after [_split_chord_symbol] has cut the figure
    string into its four components: root (step letter, alteration), kind (index
    into the abbreviation table [_CHORD_KINDS_BY_ABBREV], regenerated into
    Gen/G10.v), the list of scale-degree modifications (index into
    [_DEGREE_MODIFICATIONS], degree) and the optional bass.  The regex lexing and
    the string rendering are glue: the harness renders structured symbols to
    figure strings for the real code and parses the real output back.

    [None] models ChordSymbolError.  No proofs in this file. *)
From Coq Require Import ZArith List Bool.
From NS Require Import Gen.G10.
Import ListNotations.
Local Open Scope Z_scope.

(** * Pitch classes: scale step letter + alteration (sharps > 0, flats < 0) *)
Inductive step := SA | SB | SC | SD | SE | SF | SG.

(* ord(step) - ord('A') *)
Definition step_idx (s : step) : Z :=
  match s with SA => 0 | SB => 1 | SC => 2 | SD => 3 | SE => 4 | SF => 5 | SG => 6 end.

(* chr(ord('A') + i) for 0 <= i < 7 *)
Definition step_of_idx (i : Z) : step :=
  match i with 0 => SA | 1 => SB | 2 => SC | 3 => SD | 4 => SE | 5 => SF | _ => SG end.

(* chr(ord('A') + (ord(step) - ord('A') + 1) % 7) *)
Definition next_step (s : step) : step := step_of_idx ((step_idx s + 1) mod 7).

Definition step_tbl (t : list Z) (s : step) : Z := nth (Z.to_nat (step_idx s)) t 0.
Definition steps_above : step -> Z := step_tbl STEPS_ABOVE.    (* _STEPS_ABOVE[step] *)
Definition steps_midi : step -> Z := step_tbl STEPS_MIDI.      (* _STEPS_MIDI[step] *)

Definition pc : Type := (step * Z)%type.

(* _pitch_class_to_midi *)
Definition pc_midi (p : pc) : Z := (steps_midi (fst p) + snd p) mod 12.

(** [while transpose_amount >= _STEPS_ABOVE[step]: ...].  Every table entry is
    >= 1 and the amount is < 12, so the loop body runs at most 11 times; one
    unit of fuel is spent per loop test.  [None] = the loop would still be
    running after [TPC_FUEL] tests (proved impossible for the shipped table). *)
Fixpoint tpc_walk (fuel : nat) (amt : Z) (s : step) : option (Z * step) :=
  match fuel with
  | O => None
  | S f => if steps_above s <=? amt
           then tpc_walk f (amt - steps_above s) (next_step s)
           else Some (amt, s)
  end.

Definition TPC_FUEL : nat := 12.

(* _transpose_pitch_class(step, alter, transpose_amount) *)
Definition transpose_pc (p : pc) (k : Z) : option pc :=
  let '(s, alter) := p in
  match tpc_walk TPC_FUEL (k mod 12) s with
  | None => None
  | Some (amt, s') =>
      if 0 <? amt then
        if 0 <=? alter
        then Some (next_step s', alter - (steps_above s' - amt))   (* one more step, remove sharps / add flats *)
        else Some (s', alter + amt)                                (* remove flats *)
      else Some (s', alter)
  end.

(** * Structured chord symbols *)
Record chord := mkChord {
  c_root : pc;
  c_kind : Z;                  (* index into _CHORD_KINDS_BY_ABBREV (dict order) *)
  c_mods : list (Z * Z);       (* (index into _DEGREE_MODIFICATIONS, degree) *)
  c_bass : option pc }.

(* transpose_chord_symbol after the split: only root and bass are touched *)
Definition transpose_chord (c : chord) (k : Z) : option chord :=
  match transpose_pc (c_root c) k with
  | None => None
  | Some r =>
      match c_bass c with
      | None => Some (mkChord r (c_kind c) (c_mods c) None)
      | Some b =>
          match transpose_pc b k with
          | None => None
          | Some b' => Some (mkChord r (c_kind c) (c_mods c) (Some b'))
          end
      end
  end.

(** * Scale degrees: a Python dict {degree: alter} in insertion order *)
Definition dict : Type := list (Z * Z).

Fixpoint d_get (d : dict) (k : Z) : option Z :=
  match d with
  | [] => None
  | (k', v) :: r => if k' =? k then Some v else d_get r k
  end.

(* d[k] = v : overwrite in place, or append a new key *)
Fixpoint d_set (d : dict) (k v : Z) : dict :=
  match d with
  | [] => [(k, v)]
  | (k', v') :: r => if k' =? k then (k, v) :: r else (k', v') :: d_set r k v
  end.

(* del d[k] *)
Fixpoint d_del (d : dict) (k : Z) : dict :=
  match d with
  | [] => []
  | (k', v') :: r => if k' =? k then r else (k', v') :: d_del r k
  end.

(* _parse_kind: dict(_parse_degree(s) for s in degrees); the degree strings are
   parsed by the generator (data translation), the dict is built here *)
Definition parse_kind (kind : Z) : option dict :=
  if kind <? 0 then None else
  match nth_error KIND_DEGREES (Z.to_nat kind) with
  | None => None
  | Some l => Some (fold_left (fun d (p : Z * Z) => d_set d (fst p) (snd p)) l [])
  end.

(* one (mod_fn, degree, alter) triple; fn: 0 = _add_scale_degree,
   1 = _subtract_scale_degree, 2 = _alter_scale_degree *)
Definition apply_mod (d : dict) (m : Z * Z) : option dict :=
  let '(mi, deg) := m in
  if mi <? 0 then None else
  match nth_error DEGREE_MODS (Z.to_nat mi) with
  | None => None
  | Some (fn, alter) =>
      if fn =? 0 then
        match d_get d deg with
        | Some _ => None                                   (* 'Scale degree already in chord' *)
        | None => Some (d_set d deg (if deg =? 7 then alter - 1 else alter))
        end
      else if fn =? 1 then
        match d_get d deg with
        | None => None                                     (* 'Scale degree not in chord' *)
        | Some _ => Some (d_del d deg)
        end
      else
        match d_get d deg with
        | Some a => Some (d_set d deg (a + alter))
        | None => Some (d_set d deg alter)
        end
  end.

Fixpoint apply_mods (d : dict) (ms : list (Z * Z)) : option dict :=
  match ms with
  | [] => Some d
  | m :: r => match apply_mod d m with None => None | Some d' => apply_mods d' r end
  end.

(* the degrees component of _parse_chord_symbol *)
Definition chord_degrees (c : chord) : option dict :=
  match parse_kind (c_kind c) with
  | None => None
  | Some d => apply_mods d (c_mods c)
  end.

(* _DEGREE_OFFSETS[(degree - 1) % 7 + 1] *)
Definition degree_offset (deg : Z) : Z := nth (Z.to_nat ((deg - 1) mod 7)) DEGREE_OFFSETS 0.

Definition degree_pitch (root_pitch : Z) (p : Z * Z) : Z :=
  (root_pitch + degree_offset (fst p) + snd p) mod 12.

(* chord_symbol_pitches *)
Definition chord_pitches (c : chord) : option (list Z) :=
  match chord_degrees c with
  | None => None
  | Some d => Some (map (degree_pitch (pc_midi (c_root c))) d)
  end.

(* chord_symbol_root / chord_symbol_bass *)
Definition chord_root_pc (c : chord) : Z := pc_midi (c_root c).
Definition chord_bass_pc (c : chord) : Z :=
  match c_bass c with Some b => pc_midi b | None => pc_midi (c_root c) end.

(* chord_symbol_quality *)
Definition chord_quality (c : chord) : option Z :=
  match chord_degrees c with
  | None => None
  | Some d =>
      match d_get d 1, d_get d 3, d_get d 5 with
      | Some a1, Some a3, Some a5 =>
          if (a1 =? 0) && (a3 =? 0) && (a5 =? 0) then Some CHORD_QUALITY_MAJOR
          else if (a1 =? 0) && (a3 =? -1) && (a5 =? 0) then Some CHORD_QUALITY_MINOR
          else if (a1 =? 0) && (a3 =? 0) && (a5 =? 1) then Some CHORD_QUALITY_AUGMENTED
          else if (a1 =? 0) && (a3 =? -1) && (a5 =? -1) then Some CHORD_QUALITY_DIMINISHED
          else Some CHORD_QUALITY_OTHER
      | _, _, _ => Some CHORD_QUALITY_OTHER
      end
  end.

(** * Figure codes: the text of a chord annotation as the models see it.
    [[]] stands for constants.NO_CHORD ('N.C.');
    [step; alter; kind; has_bass; bass_step; bass_alter; m1; d1; m2; d2; ...]
    for a figure the grammar accepts; anything that does not decode stands for
    a string [_split_chord_symbol] rejects (ChordSymbolError). *)
Definition NO_CHORD_CODE : list Z := [].

Fixpoint code_mods (ms : list (Z * Z)) : list Z :=
  match ms with [] => [] | (m, d) :: r => m :: d :: code_mods r end.

Definition code_of_chord (c : chord) : list Z :=
  step_idx (fst (c_root c)) :: snd (c_root c) :: c_kind c ::
  match c_bass c with
  | Some b => 1 :: step_idx (fst b) :: snd b :: code_mods (c_mods c)
  | None => 0 :: 0 :: 0 :: code_mods (c_mods c)
  end.

Definition idx_ok (i n : Z) : bool := (0 <=? i) && (i <? n).

Fixpoint mods_of_code (l : list Z) : option (list (Z * Z)) :=
  match l with
  | [] => Some []
  | m :: d :: r =>
      if idx_ok m (Z.of_nat (length DEGREE_MODS)) && (0 <=? d) then
        match mods_of_code r with Some ms => Some ((m, d) :: ms) | None => None end
      else None
  | _ => None
  end.

Definition chord_of_code (l : list Z) : option chord :=
  match l with
  | rs :: ra :: kind :: hb :: bs :: ba :: ms =>
      if idx_ok rs 7 && idx_ok kind (Z.of_nat (length KIND_DEGREES)) then
        match mods_of_code ms with
        | None => None
        | Some mods =>
            if hb =? 1 then
              if idx_ok bs 7 then Some (mkChord (step_of_idx rs, ra) kind mods (Some (step_of_idx bs, ba)))
              else None
            else if (hb =? 0) && (bs =? 0) && (ba =? 0) then Some (mkChord (step_of_idx rs, ra) kind mods None)
            else None
        end
      else None
  | _ => None
  end.

(* chord_symbols_lib.transpose_chord_symbol on a figure code *)
Definition transpose_figure (t : list Z) (k : Z) : option (list Z) :=
  match chord_of_code t with
  | None => None                                   (* 'Unable to parse chord symbol' *)
  | Some c => match transpose_chord c k with
              | None => None
              | Some c' => Some (code_of_chord c')
              end
  end.

Definition is_no_chord (t : list Z) : bool := match t with [] => true | _ => false end.

(* the guarded call used by every caller: NO_CHORD is left alone *)
Definition transpose_figure_nc (t : list Z) (k : Z) : option (list Z) :=
  if is_no_chord t then Some t else transpose_figure t k.

Fixpoint map_opt {A B} (f : A -> option B) (l : list A) : option (list B) :=
  match l with
  | [] => Some []
  | x :: r => match f x with
              | None => None
              | Some y => match map_opt f r with None => None | Some ys => Some (y :: ys) end
              end
  end.

(* chords_lib.ChordProgression.transpose: transpose_amount % NOTES_PER_OCTAVE is passed on *)
Definition prog_transpose (k : Z) (evs : list (list Z)) : option (list (list Z)) :=
  map_opt (fun t => transpose_figure_nc t (k mod NOTES_PER_OCTAVE)) evs.
