(** Base/TrTacF.v — the binary64 counterpart of Base/TrTac.v.  Floating-point subterms are never re-associated or
    simplified (that would not be meaning-preserving); they are only *abstracted*: every float comparison, finiteness
    test, truncation and ceiling occurring in the goal is replaced by an opaque boolean / integer (the same one on
    both sides, because the subterms are syntactically equal after unfolding and zeta-reduction), after which the
    control structure and the integer arithmetic around them are decided by [tr_solve].  A rewrite of the Python
    function that changes any float expression leaves two different opaque atoms and the goal unprovable. *)
From Coq Require Import ZArith Bool Lia ZifyBool Floats.
From NS Require Import Base.FloatBridge Base.TrTac.
Local Open Scope Z_scope.

Ltac trf_abstract :=
  change (f_of_Z 1) with 1%float in *;
  change (f_of_Z 0) with 0%float in *;
  repeat match goal with
  | |- context [PrimFloat.ltb ?x ?y] => let b := fresh "fb" in set (b := PrimFloat.ltb x y) in *; clearbody b
  | |- context [PrimFloat.leb ?x ?y] => let b := fresh "fb" in set (b := PrimFloat.leb x y) in *; clearbody b
  | |- context [PrimFloat.eqb ?x ?y] => let b := fresh "fb" in set (b := PrimFloat.eqb x y) in *; clearbody b
  | |- context [finb ?x] => let b := fresh "fb" in set (b := finb x) in *; clearbody b
  end;
  repeat match goal with
  | |- context [trunc ?x] => let z := fresh "fz" in set (z := trunc x) in *; clearbody z
  | |- context [fceil ?x] => let z := fresh "fz" in set (z := fceil x) in *; clearbody z
  | |- context [ffloor ?x] => let z := fresh "fz" in set (z := ffloor x) in *; clearbody z
  end.

(** expects the definitions already unfolded *)
Ltac trf_solve :=
  intros; cbv zeta;
  change (f_of_Z 1) with 1%float in *; change (f_of_Z 0) with 0%float in *;
  tr_split;          (* first the control structure: equal conditions are equal terms on both sides *)
  trf_abstract;      (* then the float-to-integer conversions left in the leaves become opaque integers *)
  tr_fin.
