(** Base/TrTac.v — a deliberately syntax-insensitive tactic for the equalities between Gallina re-translated from
    note_seq's source (Gen/Tr.v) and the hand-written integer models.  The equivalence lemmas of Proofs/TrEquiv*.v
    first try their short structural proof and then fall back on [tr_solve], so that a rewrite of the Python
    function which does not change its meaning (a local variable introduced, branches re-nested, an arithmetic
    expression re-associated, `x != 0` for truthiness) still leaves the obligation provable, while a rewrite that
    changes a value on some argument leaves a goal [lia] cannot close. *)
From Coq Require Import ZArith Bool Lia ZifyBool.
Local Open Scope Z_scope.

Ltac Zify.zify_post_hook ::= Z.to_euclidean_division_equations.

(** case analysis on every [if] / option [match] of the goal (and of hypotheses created on the way) *)
Ltac tr_split :=
  repeat match goal with
  | |- context [match ?c with Some _ => _ | None => _ end] =>
      lazymatch c with
      | Some _ => progress cbn iota
      | None => progress cbn iota
      | context [if _ then _ else _] => fail
      | _ => destruct c eqn:?
      end
  | |- context [if ?b then _ else _] =>
      lazymatch b with
      | true => progress cbn iota
      | false => progress cbn iota
      | context [if _ then _ else _] => fail      (* split the inner condition first *)
      | _ => destruct b eqn:?
      end
  end.

(** decompose an equation through data constructors and list functions only; never through integer, boolean or
    natural-number arithmetic (that would replace a provable goal by unprovable ones) *)
Ltac tr_eq :=
  repeat match goal with
  | |- @eq ?T _ _ =>
      lazymatch T with
      | Z => fail
      | bool => fail
      | nat => fail
      | _ => progress f_equal
      end
  end.

Ltac tr_fin :=
  solve [ reflexivity
        | discriminate
        | congruence
        | lia
        | exfalso; lia
        | tr_eq; solve [ reflexivity | lia ] ].

(** [tr_solve] expects the definitions already unfolded *)
Ltac tr_solve := intros; cbv zeta; tr_split; tr_fin.
