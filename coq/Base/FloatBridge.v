(** Base/FloatBridge.v — shared bridge between Coq primitive floats (binary64,
    what CPython's [float] is) and Flocq's real-number semantics.

    * [R_of], [fin], [trunc] (Python [int()] on a float), [ffloor], [fceil]
      (Python [math.floor]/[math.ceil]) — executable under [vm_compute].
    * [f_of_me m e] decodes the wire format for floats: the harness sends a
      double as the integer pair (m, e) with value m * 2^e, |m| < 2^53 (exact).
    * [mul_R]/[add_R]/[sub_R]/[div_R]: "finite operands, result magnitude
      bounded by 2^e (e < 1024) => the float result is the rounding of the real
      result and is finite"; monotonicity of [trunc].

    Axioms used (all declared by the standard library): FloatAxioms
    ([mul_spec], ...), and through Reals: [sig_forall_dec], [sig_not_dec],
    [functional_extensionality_dep], [classic]. *)
From Coq Require Import ZArith Reals Floats Lia Lra.
From Flocq Require Import Core BinarySingleNaN PrimFloat.
Open Scope R_scope.

Notation fexp := (FLT_exp (3 - emax - prec) prec).
Notation rnd x := (round radix2 fexp ZnearestE x).

Definition R_of (x : PrimFloat.float) : R := B2R (Prim2B x).
Definition fin (x : PrimFloat.float) : Prop := is_finite (Prim2B x) = true.
Definition finb (x : PrimFloat.float) : bool := is_finite (Prim2B x).

(** Python [int(x)] for a finite float: truncation toward zero. *)
Definition trunc (x : PrimFloat.float) : Z := Btrunc (Prim2B x).

(** Exact float of an integer mantissa / exponent pair (|m| < 2^53 expected). *)
Definition f_of_me (m e : Z) : PrimFloat.float :=
  let a := Z.ldexp (PrimFloat.of_uint63 (Uint63.of_Z (Z.abs m))) e in
  if (m <? 0)%Z then (- a)%float else a.

Definition f_of_Z (z : Z) : PrimFloat.float := f_of_me z 0.

(** Python [math.floor] / [math.ceil] on a finite float (exact integers). *)
Definition ffloor (x : PrimFloat.float) : Z :=
  let t := trunc x in if PrimFloat.ltb x (f_of_Z t) then (t - 1)%Z else t.
Definition fceil (x : PrimFloat.float) : Z :=
  let t := trunc x in if PrimFloat.ltb (f_of_Z t) x then (t + 1)%Z else t.

Global Instance prec53 : Prec_gt_0 prec. Proof. unfold Prec_gt_0, prec; lia. Qed.

Lemma rnd_abs_le_bpow x e : (-1074 <= e)%Z -> Rabs x <= bpow radix2 e -> Rabs (rnd x) <= bpow radix2 e.
Proof. intros He Hx. apply abs_round_le_generic; auto with typeclass_instances.
apply generic_format_bpow. unfold FLT_exp, emax, prec. lia. Qed.

Lemma mul_R (x y : PrimFloat.float) e : fin x -> fin y -> (-1074 <= e < 1024)%Z ->
  Rabs (R_of x * R_of y) <= bpow radix2 e ->
  R_of (x * y) = rnd (R_of x * R_of y) /\ fin (x * y).
Proof.
intros Fx Fy He Hb. unfold R_of, fin. rewrite mul_equiv.
generalize (Bmult_correct prec emax Hprec Hmax mode_NE (Prim2B x) (Prim2B y)).
rewrite Rlt_bool_true.
- intros (H1 & H2 & _). split; [exact H1 | ]. unfold fin in *. rewrite Fx, Fy in H2. exact H2.
- apply Rle_lt_trans with (bpow radix2 e). apply rnd_abs_le_bpow; [lia | exact Hb]. apply bpow_lt. unfold emax. lia.
Qed.

Lemma add_R (x y : PrimFloat.float) e : fin x -> fin y -> (-1074 <= e < 1024)%Z ->
  Rabs (R_of x + R_of y) <= bpow radix2 e ->
  R_of (x + y) = rnd (R_of x + R_of y) /\ fin (x + y).
Proof.
intros Fx Fy He Hb. unfold R_of, fin. rewrite add_equiv.
generalize (Bplus_correct prec emax Hprec Hmax mode_NE (Prim2B x) (Prim2B y) Fx Fy).
rewrite Rlt_bool_true.
- intros (H1 & H2 & _). split; assumption.
- apply Rle_lt_trans with (bpow radix2 e). apply rnd_abs_le_bpow; [lia | exact Hb]. apply bpow_lt. unfold emax. lia.
Qed.

Lemma sub_R (x y : PrimFloat.float) e : fin x -> fin y -> (-1074 <= e < 1024)%Z ->
  Rabs (R_of x - R_of y) <= bpow radix2 e ->
  R_of (x - y) = rnd (R_of x - R_of y) /\ fin (x - y).
Proof.
intros Fx Fy He Hb. unfold R_of, fin. rewrite sub_equiv.
generalize (Bminus_correct prec emax Hprec Hmax mode_NE (Prim2B x) (Prim2B y) Fx Fy).
rewrite Rlt_bool_true.
- intros (H1 & H2 & _). split; assumption.
- apply Rle_lt_trans with (bpow radix2 e). apply rnd_abs_le_bpow; [lia | exact Hb]. apply bpow_lt. unfold emax. lia.
Qed.

Lemma div_R (x y : PrimFloat.float) e : fin x -> fin y -> R_of y <> 0 -> (-1074 <= e < 1024)%Z ->
  Rabs (R_of x / R_of y) <= bpow radix2 e ->
  R_of (x / y) = rnd (R_of x / R_of y) /\ fin (x / y).
Proof.
intros Fx Fy Hy He Hb. unfold R_of, fin. rewrite div_equiv.
generalize (Bdiv_correct prec emax Hprec Hmax mode_NE (Prim2B x) (Prim2B y) Hy).
rewrite Rlt_bool_true.
- intros (H1 & H2 & _). split; [exact H1|]. unfold fin in Fx. rewrite Fx in H2. exact H2.
- apply Rle_lt_trans with (bpow radix2 e). apply rnd_abs_le_bpow; [lia | exact Hb]. apply bpow_lt. unfold emax. lia.
Qed.

Lemma trunc_R x : IZR (trunc x) = round radix2 (FIX_exp 0) Ztrunc (R_of x).
Proof. unfold trunc, R_of. apply (Btrunc_correct prec emax Hmax (Prim2B x)). Qed.

Lemma trunc_Ztrunc x : trunc x = Ztrunc (R_of x).
Proof.
apply eq_IZR. rewrite trunc_R. unfold round, F2R, scaled_mantissa, cexp, FIX_exp. simpl.
rewrite Rmult_1_r, Rmult_1_r. reflexivity.
Qed.

Lemma trunc_mono x y : R_of x <= R_of y -> (trunc x <= trunc y)%Z.
Proof.
intros H. apply le_IZR. rewrite !trunc_R.
apply round_le; auto with typeclass_instances. Qed.

Lemma R_of_SF x : R_of x = SF2R radix2 (Prim2SF x).
Proof. unfold R_of, Prim2B. apply B2R_SF2B. Qed.

Lemma half_R : R_of 0x1p-1 = / 2 /\ fin 0x1p-1.
Proof. split; [|reflexivity]. rewrite R_of_SF.
  replace (Prim2SF 0x1p-1) with (S754_finite false 4503599627370496 (-53)) by (vm_compute; reflexivity).
  unfold SF2R, F2R. cbn -[IZR]. lra. Qed.

(** Comparison bridges (finite operands). *)
Lemma ltb_R x y : fin x -> fin y -> PrimFloat.ltb x y = Rlt_bool (R_of x) (R_of y).
Proof. intros Fx Fy. rewrite ltb_equiv. apply Bltb_correct; assumption. Qed.

Lemma leb_R x y : fin x -> fin y -> PrimFloat.leb x y = Rle_bool (R_of x) (R_of y).
Proof. intros Fx Fy. rewrite leb_equiv. apply Bleb_correct; assumption. Qed.
