(** Base/Sx.v — the wire format between the Python harness and the Gallina
    models.  Every model exposes [run : sx -> sx]; the harness serialises a
    case as an S-expression of integers, the extracted OCaml driver (or a
    generated cases file evaluated with vm_compute) applies [run], and the
    printed result is compared with the implementation's canonical output.

    Decoders are total: a malformed tree decodes to defaults.  They are glue
    (trusted, exercised by every correspondence run), never the subject of a
    theorem — theorems speak about the typed model functions only. *)
From Coq Require Import ZArith List Bool.
Import ListNotations.
Local Open Scope Z_scope.

Inductive sx : Type :=
| I (z : Z)
| L (l : list sx).

Definition xZ (s : sx) : Z := match s with I z => z | L _ => 0 end.
Definition xL (s : sx) : list sx := match s with L l => l | I _ => [] end.
Definition xB (s : sx) : bool := negb (Z.eqb (xZ s) 0).
Definition xN (s : sx) : nat := Z.to_nat (xZ s).
Definition xnth (n : nat) (s : sx) : sx := nth n (xL s) (I 0).
Definition xZs (s : sx) : list Z := map xZ (xL s).
Definition xOptZ (s : sx) : option Z :=
  match s with L [I z] => Some z | _ => None end.

Definition oB (b : bool) : sx := I (if b then 1 else 0).
Definition oN (n : nat) : sx := I (Z.of_nat n).
Definition oZs (l : list Z) : sx := L (map I l).
Definition oOptZ (o : option Z) : sx :=
  match o with Some z => L [I z] | None => L [] end.

(** Conventional encodings of failure: [L [I (-1000); I code]]. *)
Definition oErr (code : Z) : sx := L [I (-1000); I code].
Definition oOk (s : sx) : sx := L [I 0; s].
