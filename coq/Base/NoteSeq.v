(** Base/NoteSeq.v — records mirroring the NoteSequence protobuf, with exactly
    the fields the anchored note_seq code reads or writes.  Times are exact
    ticks ([Z]; the harness uses 1 tick = 2^-40 s, on which the implementation's
    float comparisons, min/max, and additions/subtractions are exact).
    Everything no modelled function touches is carried in one opaque [rest]
    token so "every other field is unchanged" remains a statement.

    Wire format (harness/vt/nsio.py produces exactly this):
      note  = (pitch velocity start end instrument program is_drum qstart qend rest)
      tempo = (time qpm)          qpm in units chosen by the property (default 2^-20 qpm)
      tsig  = (time numerator denominator)
      ksig  = (time key mode)
      text  = (time qstep (char codes...) annotation_type)
      cc    = (time qstep number value instrument program is_drum)
      bend  = (time bend instrument program is_drum)
      sect  = (time section_id)
      seq   = ((notes) (tempos) (tsigs) (ksigs) (texts) (ccs) (bends) (sects)
               total_time total_qsteps spq sps (subseq_start subseq_end) tpq rest) *)
From Coq Require Import ZArith List Bool.
From NS Require Import Base.Sx.
Import ListNotations.
Local Open Scope Z_scope.

Record note := mkNote {
  n_pitch : Z; n_vel : Z; n_start : Z; n_end : Z;
  n_instr : Z; n_prog : Z; n_drum : bool;
  n_qstart : Z; n_qend : Z; n_rest : Z }.

Record tempo := mkTempo { tp_time : Z; tp_qpm : Z }.
Record tsig := mkTsig { ts_time : Z; ts_num : Z; ts_den : Z }.
Record ksig := mkKsig { ks_time : Z; ks_key : Z; ks_mode : Z }.
Record text := mkText { tx_time : Z; tx_qstep : Z; tx_text : list Z; tx_type : Z }.
Record cc := mkCc { cc_time : Z; cc_qstep : Z; cc_num : Z; cc_val : Z;
                    cc_instr : Z; cc_prog : Z; cc_drum : bool }.
Record bend := mkBend { pb_time : Z; pb_bend : Z; pb_instr : Z; pb_prog : Z; pb_drum : bool }.
Record sect := mkSect { sa_time : Z; sa_id : Z }.

Record seq := mkSeq {
  s_notes : list note; s_tempos : list tempo; s_tsigs : list tsig; s_ksigs : list ksig;
  s_texts : list text; s_ccs : list cc; s_bends : list bend; s_sects : list sect;
  s_total : Z; s_qsteps : Z;
  s_spq : Z; s_sps : Z;                (* quantization_info; 0 = unset *)
  s_sub : Z * Z;                       (* subsequence_info offsets *)
  s_tpq : Z; s_rest : Z }.

(** TextAnnotation types / modes used by the code (values fixed by music.proto;
    each property that depends on one re-checks it through its own Gen file). *)
Definition ANN_UNKNOWN : Z := 0.
Definition ANN_CHORD_SYMBOL : Z := 1.
Definition ANN_BEAT : Z := 2.

(** * Decoders *)
Definition xNote (s : sx) : note :=
  let a := fun n => xnth n s in
  mkNote (xZ (a 0%nat)) (xZ (a 1%nat)) (xZ (a 2%nat)) (xZ (a 3%nat)) (xZ (a 4%nat))
         (xZ (a 5%nat)) (xB (a 6%nat)) (xZ (a 7%nat)) (xZ (a 8%nat)) (xZ (a 9%nat)).
Definition xTempo (s : sx) := mkTempo (xZ (xnth 0 s)) (xZ (xnth 1 s)).
Definition xTsig (s : sx) := mkTsig (xZ (xnth 0 s)) (xZ (xnth 1 s)) (xZ (xnth 2 s)).
Definition xKsig (s : sx) := mkKsig (xZ (xnth 0 s)) (xZ (xnth 1 s)) (xZ (xnth 2 s)).
Definition xText (s : sx) := mkText (xZ (xnth 0 s)) (xZ (xnth 1 s)) (xZs (xnth 2 s)) (xZ (xnth 3 s)).
Definition xCc (s : sx) :=
  mkCc (xZ (xnth 0 s)) (xZ (xnth 1 s)) (xZ (xnth 2 s)) (xZ (xnth 3 s)) (xZ (xnth 4 s))
       (xZ (xnth 5 s)) (xB (xnth 6 s)).
Definition xBend (s : sx) :=
  mkBend (xZ (xnth 0 s)) (xZ (xnth 1 s)) (xZ (xnth 2 s)) (xZ (xnth 3 s)) (xB (xnth 4 s)).
Definition xSect (s : sx) := mkSect (xZ (xnth 0 s)) (xZ (xnth 1 s)).

Definition xSeq (s : sx) : seq :=
  let a := fun n => xnth n s in
  mkSeq (map xNote (xL (a 0%nat))) (map xTempo (xL (a 1%nat))) (map xTsig (xL (a 2%nat)))
        (map xKsig (xL (a 3%nat))) (map xText (xL (a 4%nat))) (map xCc (xL (a 5%nat)))
        (map xBend (xL (a 6%nat))) (map xSect (xL (a 7%nat)))
        (xZ (a 8%nat)) (xZ (a 9%nat)) (xZ (a 10%nat)) (xZ (a 11%nat))
        (xZ (xnth 0 (a 12%nat)), xZ (xnth 1 (a 12%nat))) (xZ (a 13%nat)) (xZ (a 14%nat)).

(** * Encoders *)
Definition oNote (n : note) : sx :=
  L [I (n_pitch n); I (n_vel n); I (n_start n); I (n_end n); I (n_instr n); I (n_prog n);
     oB (n_drum n); I (n_qstart n); I (n_qend n); I (n_rest n)].
Definition oTempo (t : tempo) := L [I (tp_time t); I (tp_qpm t)].
Definition oTsig (t : tsig) := L [I (ts_time t); I (ts_num t); I (ts_den t)].
Definition oKsig (k : ksig) := L [I (ks_time k); I (ks_key k); I (ks_mode k)].
Definition oText (t : text) := L [I (tx_time t); I (tx_qstep t); oZs (tx_text t); I (tx_type t)].
Definition oCc (c : cc) :=
  L [I (cc_time c); I (cc_qstep c); I (cc_num c); I (cc_val c); I (cc_instr c); I (cc_prog c); oB (cc_drum c)].
Definition oBend (b : bend) :=
  L [I (pb_time b); I (pb_bend b); I (pb_instr b); I (pb_prog b); oB (pb_drum b)].
Definition oSect (s : sect) := L [I (sa_time s); I (sa_id s)].

Definition oSeq (s : seq) : sx :=
  L [L (map oNote (s_notes s)); L (map oTempo (s_tempos s)); L (map oTsig (s_tsigs s));
     L (map oKsig (s_ksigs s)); L (map oText (s_texts s)); L (map oCc (s_ccs s));
     L (map oBend (s_bends s)); L (map oSect (s_sects s));
     I (s_total s); I (s_qsteps s); I (s_spq s); I (s_sps s);
     L [I (fst (s_sub s)); I (snd (s_sub s))]; I (s_tpq s); I (s_rest s)].

(** * Record update helpers (models read better with them) *)
Definition note_with_times (n : note) (s e : Z) : note :=
  mkNote (n_pitch n) (n_vel n) s e (n_instr n) (n_prog n) (n_drum n) (n_qstart n) (n_qend n) (n_rest n).
Definition note_with_pitch (n : note) (p : Z) : note :=
  mkNote p (n_vel n) (n_start n) (n_end n) (n_instr n) (n_prog n) (n_drum n) (n_qstart n) (n_qend n) (n_rest n).
Definition note_with_qsteps (n : note) (qs qe : Z) : note :=
  mkNote (n_pitch n) (n_vel n) (n_start n) (n_end n) (n_instr n) (n_prog n) (n_drum n) qs qe (n_rest n).

(** Well-formedness (C11): 0 <= start <= end <= total_time, no negative event time. *)
Definition note_wf (total : Z) (n : note) : Prop := 0 <= n_start n /\ n_start n <= n_end n /\ n_end n <= total.
Definition seq_wf (s : seq) : Prop :=
  Forall (note_wf (s_total s)) (s_notes s) /\
  Forall (fun t => 0 <= tp_time t) (s_tempos s) /\ Forall (fun t => 0 <= ts_time t) (s_tsigs s) /\
  Forall (fun t => 0 <= ks_time t) (s_ksigs s) /\ Forall (fun t => 0 <= tx_time t) (s_texts s) /\
  Forall (fun t => 0 <= cc_time t) (s_ccs s) /\ Forall (fun t => 0 <= pb_time t) (s_bends s) /\
  Forall (fun t => 0 <= sa_time t) (s_sects s).
