#!/usr/bin/env python3
"""tools/seed_matrix.py [names...]: run every seeded change (seeded/Cxx-n/patch.diff) against its own property's check and
write seeded/RESULTS.md.  JOBS (default 6) at a time, each worker in its own scratch copy of /verif (VERIF_ROOT) with its own
scratch worktree of /repo HEAD (VERIF_REPO): a Coq tree cannot be shared between different source trees.  /repo itself is
never touched; copies and worktrees are removed."""
import glob, os, re, shutil, subprocess, sys
from concurrent.futures import ThreadPoolExecutor
ROOT = '/verif'
JOBS = int(os.environ.get('JOBS', '6'))
allnames = sorted((os.path.basename(d) for d in glob.glob(os.path.join(ROOT, 'seeded/C[0-9][0-9]-[0-9]*'))),
                  key=lambda n: (n.split('-')[0], int(n.split('-')[1])))
names = [n for n in allnames if n in sys.argv[1:]] if len(sys.argv) > 1 else allnames
os.makedirs(os.path.join(ROOT, 'build/seedlogs'), exist_ok=True)
copies = ['/tmp/vs-%d-%d' % (os.getpid(), k) for k in range(min(JOBS, max(1, len(names))))]
for c in copies:
    subprocess.run(['rsync', '-a', '--delete', '--exclude', '.git', '--exclude', 'seeded', '--exclude', 'replays',
                    '--exclude', '__pycache__', ROOT + '/', c + '/'], check=True)
free = list(copies)


def run(n):
    pid = n.split('-')[0]
    c = free.pop()
    wt = '/tmp/wt-seed-%s-%d' % (n, os.getpid())
    try:
        subprocess.run(['git', '-C', '/repo', 'worktree', 'add', '-q', wt, 'HEAD'], check=True)
        if subprocess.run(['git', '-C', wt, 'apply', os.path.join(ROOT, 'seeded', n, 'patch.diff')]).returncode:
            line = 'seed=%s PATCH-DOES-NOT-APPLY' % n
        else:
            p = subprocess.run([os.path.join(c, 'check'), pid], stdout=subprocess.PIPE, stderr=subprocess.STDOUT,
                               text=True, env=dict(os.environ, VERIF_ROOT=c, VERIF_REPO=wt))
            v = ' '.join(x[:400] for x in p.stdout.splitlines()
                         if re.match(r'(VIOLATION|OK|failure:|correspondence|PROOF-PROBLEM)', x))
            line = 'seed=%s check=%s rc=%d :: %s' % (n, pid, p.returncode, v)
            open(os.path.join(ROOT, 'build/seedlogs/%s.full.log' % n), 'w').write(p.stdout)
        open(os.path.join(ROOT, 'build/seedlogs/%s.log' % n), 'w').write(line + '\n')
    finally:
        subprocess.run(['git', '-C', '/repo', 'worktree', 'remove', '--force', wt])
        free.append(c)


try:
    with ThreadPoolExecutor(len(copies)) as ex:
        list(ex.map(run, names))
finally:
    for c in copies:
        shutil.rmtree(c, ignore_errors=True)
rows = ['| seed | property | check exit | verdict line |', '|---|---|---|---|']
bad = []
for n in allnames:
    f = os.path.join(ROOT, 'build/seedlogs/%s.log' % n)
    if not os.path.exists(f):
        continue
    l = ([x for x in open(f).read().splitlines() if x.startswith('seed=')] or ['?'])[0]
    m = re.search(r' rc=(\d+) ', l)
    rc = m.group(1) if m else '?'
    v = re.sub(r'^.*?:: ', '', l)[:220].replace('|', '/')
    if 'no-failing-input-found' in l and 'no-failing-input-found' not in v:
        v += ' ... no-failing-input-found'
    rows.append('| %s | %s | %s | `%s` |' % (n, n.split('-')[0], rc, v))
    if rc != '1' or 'no-failing-input-found' in l:
        bad.append((n, rc, v[:160]))
open(os.path.join(ROOT, 'seeded/RESULTS.md'), 'w').write('\n'.join(rows) + '\n')
print('%d seeds run, %d rows; not caught with a concrete input: %d' % (len(names), len(rows) - 2, len(bad)))
for b in bad:
    print(*b)
