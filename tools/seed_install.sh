#!/bin/bash
# tools/seed_install.sh <seed-dir> <name>  -> verifies and installs as /verif/seeded/<name>/
set -u
SRC=$1; NAME=$2
OUT=$(/verif/tools/seed_verify.sh $SRC 2>&1); RC=$?
echo "$OUT" | head -2
if [ $RC -ne 0 ]; then echo "NOT INSTALLED: $NAME"; exit 1; fi
mkdir -p /verif/seeded/$NAME
cp $SRC/patch.diff $SRC/demo.py /verif/seeded/$NAME/
/venv/bin/python - "$SRC/meta.json" "/verif/seeded/$NAME/meta.json" <<'PY'
import json, sys
m = json.load(open(sys.argv[1]))
m['confirmed_by_integrator'] = ('tools/seed_verify.sh in a scratch worktree of /repo HEAD: demo.py exits 0 (PASS) on the clean tree, '
    'patch.diff applies with git apply, demo.py exits non-zero (FAIL) with it, and the full pytest suite has the same set of '
    'failing tests (the 11 pre-existing environment failures) before and after')
m.setdefault('detected_by', 'see DESIGN.md section 10 (seeded changes table)')
json.dump(m, open(sys.argv[2], 'w'), indent=1)
PY
echo "installed $NAME"
