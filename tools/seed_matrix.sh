#!/bin/bash
# tools/seed_matrix.sh [names...] : run every seeded change against its property's check (scratch worktrees,
# 4 at a time) and write seeded/RESULTS.md.  /repo itself is never touched.
cd /verif
NAMES=${@:-$(ls seeded | grep -E "^C[0-9]+-[0-9]+$" | sort -t- -k2,2n -k1,1)}
mkdir -p build/seedlogs
run_one() { n=$1; p=${n%-*}; /verif/tools/seed_run.sh $n $p > /verif/build/seedlogs/$n.log 2>&1; }
export -f run_one
echo $NAMES | tr ' ' '\n' | xargs -P 4 -I{} bash -c 'run_one {}'
{
echo "| seed | property | check exit | verdict line |"
echo "|---|---|---|---|"
for n in $(ls seeded | grep -E "^C[0-9]+-[0-9]+$" | sort -t- -k1,1 -k2,2n); do
  [ -f build/seedlogs/$n.log ] || continue
  l=$(grep '^seed=' build/seedlogs/$n.log | head -1)
  rc=$(echo "$l" | sed -n 's/.* rc=\([0-9]*\) .*/\1/p')
  v=$(echo "$l" | sed 's/.*:: //' | cut -c1-220 | tr '|' '/')
  if echo "$l" | grep -q 'no-failing-input-found'; then v="$v ... no-failing-input-found"; fi
  echo "| $n | ${n%-*} | ${rc:-?} | \`$v\` |"
done
} > seeded/RESULTS.md
cat seeded/RESULTS.md
