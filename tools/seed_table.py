#!/usr/bin/env python3
"""Splice the seeded-changes table (seeded/*/meta.json + seeded/RESULTS.md) into DESIGN.md between the markers."""
import glob, json, os, re
ROOT = '/verif'
res = {}
p = os.path.join(ROOT, 'seeded/RESULTS.md')
if os.path.exists(p):
    for line in open(p):
        m = re.match(r'\| (C\d+-\d+) \| (C\d+) \| (\S+) \| `(.*)` \|', line)
        if m:
            res[m.group(1)] = (m.group(3), m.group(4))
rows = ['| change | breaks | what was changed (from meta.json) | needs to manifest | check result |', '|---|---|---|---|---|']
def key(d):
    a, b = os.path.basename(d).split('-'); return (a, int(b))
for d in sorted(glob.glob(os.path.join(ROOT, 'seeded/C*-*')), key=key):
    n = os.path.basename(d)
    try:
        m = json.load(open(os.path.join(d, 'meta.json')))
    except Exception:
        continue
    rc, v = res.get(n, ('?', 'not run'))
    kind = re.search(r'"kind": "([^"]+)"', v)
    if rc == '1' and 'no-failing-input-found' in v:
        verdict = 'VIOLATION, no-failing-input-found (proof/correspondence only)'
    elif rc == '1':
        verdict = 'caught: VIOLATION with a concrete failing input' + (' (`%s`)' % kind.group(1) if kind else '')
    elif rc == '0':
        verdict = '**missed** (check exits 0)'
    else:
        verdict = v
    def cl(s, k): return re.sub(r'\s+', ' ', str(s)).replace('|', '/')[:k]
    rows.append('| %s | %s | %s | %s | %s |' % (n, m.get('property', n.split('-')[0]), cl(m.get('summary', ''), 260), cl(m.get('needs', ''), 200), verdict))
table = '\n'.join(rows)
dp = os.path.join(ROOT, 'DESIGN.md')
s = open(dp).read()
if 'SEEDED_TABLE_PLACEHOLDER' in s:
    s = s.replace('SEEDED_TABLE_PLACEHOLDER', '<!-- SEEDED-TABLE-BEGIN -->\n' + table + '\n<!-- SEEDED-TABLE-END -->')
else:
    s = re.sub(r'<!-- SEEDED-TABLE-BEGIN -->.*<!-- SEEDED-TABLE-END -->', lambda _: '<!-- SEEDED-TABLE-BEGIN -->\n' + table + '\n<!-- SEEDED-TABLE-END -->', s, flags=re.S)
open(dp, 'w').write(s)
print('rows', len(rows) - 2)
