#!/bin/bash
# tools/harmless_matrix.sh [names...]: apply each meaning-preserving rewrite of seeded/harmless/ (one at a time, in a
# scratch worktree of /repo HEAD) and run the checks named in seeded/harmless/MAP.txt against it.  Expected: OK.
# Writes seeded/HARMLESS.md.  Sequential (the Coq tree is shared); /repo itself is never touched.
cd /verif
MAP=seeded/harmless/MAP.txt
NAMES=${@:-$(awk '{print $1}' $MAP)}
mkdir -p build/harmlesslogs
for n in $NAMES; do
  pids=$(grep "^$n " $MAP | cut -d' ' -f2-)
  WT=/tmp/wt-harmless-$n-$$
  git -C /repo worktree add -q $WT HEAD || continue
  if ! git -C $WT apply /verif/seeded/harmless/$n.diff; then echo "$n PATCH-DOES-NOT-APPLY" > build/harmlesslogs/$n.log; git -C /repo worktree remove --force $WT; continue; fi
  : > build/harmlesslogs/$n.log
  for p in $pids; do
    OUT=$(VERIF_REPO=$WT ./check $p 2>&1); RC=$?
    echo "$n $p rc=$RC :: $(echo "$OUT" | grep -E '^(VIOLATION|OK|PROOF-PROBLEM)' | head -3 | cut -c1-300 | tr '\n' ' ')" >> build/harmlesslogs/$n.log
  done
  git -C /repo worktree remove --force $WT
done
{
echo "| rewrite | check | exit | verdict |"
echo "|---|---|---|---|"
for n in $(awk '{print $1}' $MAP); do
  [ -f build/harmlesslogs/$n.log ] || continue
  while read -r l; do
    p=$(echo "$l" | awk '{print $2}'); rc=$(echo "$l" | sed -n 's/.* rc=\([0-9]*\) .*/\1/p')
    echo "| $n | $p | ${rc:-?} | \`$(echo "$l" | sed 's/.*:: //' | cut -c1-200 | tr '|' '/')\` |"
  done < build/harmlesslogs/$n.log
done
} > seeded/HARMLESS.md
cat seeded/HARMLESS.md
