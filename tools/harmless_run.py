#!/usr/bin/env python3
"""tools/harmless_run.py [names...]: the mirror image of the seeded-change matrix.  Every patch under seeded/harmless/
is a meaning-preserving rewrite of anchored code (the property still holds); each is applied alone in a scratch
worktree of /repo HEAD and run against EVERY check whose anchored files include a file the patch touches.  Expected
verdict everywhere: OK.  Runs JOBS (default 6) patches at a time, each in its own scratch copy of /verif
(VERIF_ROOT), because the Coq tree of one copy cannot be shared between different source trees.  Writes
seeded/HARMLESS.md.  /repo itself is never touched; scratch copies and worktrees are removed."""
import glob, json, os, re, shutil, subprocess, sys
from concurrent.futures import ThreadPoolExecutor
ROOT = '/verif'
JOBS = int(os.environ.get('JOBS', '6'))
anch = {}
for line in open(os.path.join(ROOT, 'properties.jsonl')):
    d = json.loads(line); anch[d['id']] = set(d['anchors']['files'])
extra = {}
mp = os.path.join(ROOT, 'seeded/harmless/MAP.txt')
if os.path.exists(mp):
    for l in open(mp):
        p = l.split()
        if p:
            extra[p[0]] = p[1:]
names = sorted(os.path.basename(f)[:-5] for f in glob.glob(os.path.join(ROOT, 'seeded/harmless/*.diff')))
if len(sys.argv) > 1:
    names = [n for n in names if n in sys.argv[1:]]
plan = []
for n in names:
    files = set(re.findall(r'^\+\+\+ b/(\S+)', open(os.path.join(ROOT, 'seeded/harmless', n + '.diff')).read(), re.M))
    pids = sorted(set(extra.get(n, [])) | set(pid for pid, fs in anch.items() if fs & files))
    plan.append((n, pids))
os.makedirs(os.path.join(ROOT, 'build/harmlesslogs'), exist_ok=True)
copies = ['/tmp/vh-%d-%d' % (os.getpid(), k) for k in range(JOBS)]
for c in copies:
    subprocess.run(['rsync', '-a', '--delete', '--exclude', '.git', '--exclude', 'seeded', '--exclude', 'replays',
                    '--exclude', '__pycache__', ROOT + '/', c + '/'], check=True)
free = list(copies)


def run(item):
    n, pids = item
    c = free.pop()
    wt = '/tmp/wt-harmless-%s-%d' % (n, os.getpid())
    rows = []
    try:
        subprocess.run(['git', '-C', '/repo', 'worktree', 'add', '-q', wt, 'HEAD'], check=True)
        if subprocess.run(['git', '-C', wt, 'apply', os.path.join(ROOT, 'seeded/harmless', n + '.diff')]).returncode:
            rows.append((n, '-', '?', 'PATCH-DOES-NOT-APPLY'))
        else:
            for pid in pids:
                env = dict(os.environ, VERIF_ROOT=c, VERIF_REPO=wt)
                p = subprocess.run([os.path.join(c, 'check'), pid], stdout=subprocess.PIPE, stderr=subprocess.STDOUT,
                                   text=True, env=env)
                open(os.path.join(ROOT, 'build/harmlesslogs/%s.%s.log' % (n, pid)), 'w').write(p.stdout)
                v = ' '.join(x[:260] for x in p.stdout.splitlines()
                             if re.match(r'(VIOLATION|OK|PROOF-PROBLEM|failure:|correspondence)', x))[:420]
                rows.append((n, pid, str(p.returncode), v))
    finally:
        subprocess.run(['git', '-C', '/repo', 'worktree', 'remove', '--force', wt])
        free.append(c)
    return rows


try:
    with ThreadPoolExecutor(JOBS) as ex:
        res = [r for rows in ex.map(run, plan) for r in rows]
finally:
    for c in copies:
        shutil.rmtree(c, ignore_errors=True)
out = ['| rewrite | check | exit | verdict |', '|---|---|---|---|']
bad = 0
for n, pid, rc, v in res:
    if rc != '0':
        bad += 1
    out.append('| %s | %s | %s | `%s` |' % (n, pid, rc, v.replace('|', '/')))
# keep rows of rewrites not re-run this time
path = os.path.join(ROOT, 'seeded/HARMLESS.md')
if len(sys.argv) > 1 and os.path.exists(path):
    done = set((n, pid) for n, pid, _, _ in res)
    for l in open(path).read().splitlines()[2:]:
        c = [x.strip() for x in l.split('|')]
        if len(c) > 3 and (c[1], c[2]) not in done and c[1] not in [n for n, _ in plan]:
            out.append(l)
    out = out[:2] + sorted(out[2:])
open(path, 'w').write('\n'.join(out) + '\n')
print('%d runs, %d not OK' % (len(res), bad))
for n, pid, rc, v in res:
    if rc != '0':
        print(n, pid, rc, v[:300])
