#!/bin/bash
# tools/seed_run.sh <seed-name> <pid> [<pid>...]: run checks against a scratch worktree of /repo HEAD with the seeded patch applied
set -u
NAME=$1; shift
WT=/tmp/wt-seedrun-$NAME-$$
git -C /repo worktree add -q $WT HEAD || exit 2
if ! git -C $WT apply /verif/seeded/$NAME/patch.diff; then echo "seed=$NAME PATCH-DOES-NOT-APPLY"; git -C /repo worktree remove --force $WT; exit 3; fi
for PID in "$@"; do
  OUT=$(cd /verif && VERIF_REPO=$WT ./check $PID 2>&1); RC=$?
  echo "seed=$NAME check=$PID rc=$RC :: $(echo "$OUT" | grep -E '^(VIOLATION|OK|failure:|correspondence|PROOF-PROBLEM)' | head -3 | cut -c1-400 | tr '\n' ' ')"
done
git -C /repo worktree remove --force $WT
