#!/bin/bash
# tools/harmless_install.sh <dir> <name>: confirm a meaning-preserving rewrite (dir with patch.diff, demo.py, meta.json) in a
# scratch worktree of /repo HEAD -- demo PASSes on the clean tree AND with the patch, the patch applies, the full suite has
# the same failing set -- and install it as seeded/harmless/<name>.{diff,json,demo.py}
set -u
D=$(readlink -f "$1"); NAME=$2; WT=/tmp/wt-hverify-$NAME-$$
BASE=/root/scratch/baseline_failed.txt
git -C /repo worktree add -q $WT HEAD || exit 2
cd $WT
PYTHONPATH=$WT /venv/bin/python $D/demo.py > /tmp/hv-clean-$$.log 2>&1; RC_CLEAN=$?
git apply $D/patch.diff; RC_APPLY=$?
PYTHONPATH=$WT /venv/bin/python $D/demo.py > /tmp/hv-mut-$$.log 2>&1; RC_MUT=$?
PYTHONPATH=$WT /venv/bin/python -m pytest -q -p no:cacheprovider --timeout=900 2>/dev/null | grep -E '^(FAILED|ERROR)' | sort > /tmp/hv-failed-$$.txt
if diff -q $BASE /tmp/hv-failed-$$.txt >/dev/null; then SUITE=same; else SUITE=DIFFERENT; fi
echo "harmless=$NAME clean_rc=$RC_CLEAN apply_rc=$RC_APPLY patched_rc=$RC_MUT suite=$SUITE"
cd /; git -C /repo worktree remove --force $WT; rm -f /tmp/hv-*-$$.*
if [ $RC_CLEAN -eq 0 ] && [ $RC_APPLY -eq 0 ] && [ $RC_MUT -eq 0 ] && [ $SUITE = same ]; then
  mkdir -p /verif/seeded/harmless
  cp $D/patch.diff /verif/seeded/harmless/$NAME.diff; cp $D/demo.py /verif/seeded/harmless/$NAME.demo.py; cp $D/meta.json /verif/seeded/harmless/$NAME.json
  echo "installed $NAME"
else echo "NOT INSTALLED: $NAME"; exit 1; fi
