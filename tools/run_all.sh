#!/bin/bash
# tools/run_all.sh [tier] : run every registered check once on /repo as it is, 4 at a time; print one line per check
cd /verif
TIER=${1:-quick}
mkdir -p build/alllogs
IDS=$(python3 -c "import json;print(' '.join(c['property_id'] for c in json.load(open('MANIFEST.json'))['checks']))")
run_one() { s=$(date +%s); ./check $1 --tier $2 > build/alllogs/$1.$2.log 2>&1; rc=$?; e=$(date +%s); echo "$1 rc=$rc $((e-s))s $(grep -E '^(OK|VIOLATION|KNOWN-FINDING)' build/alllogs/$1.$2.log | cut -c1-150 | tr '\n' ' ')"; }
export -f run_one
echo $IDS | tr ' ' '\n' | xargs -P ${JOBS:-4} -I{} bash -c "run_one {} $TIER"
