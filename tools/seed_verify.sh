#!/bin/bash
# tools/seed_verify.sh <seed-dir>   (dir with patch.diff, demo.py, meta.json)
# Confirms, in a scratch worktree: demo PASSes on clean HEAD, patch applies, demo FAILs with it,
# and the existing test suite has the same set of failing tests before and after.
set -u
D=$(readlink -f "$1"); WT=/tmp/wt-seedverify-$$
BASE=/root/scratch/baseline_failed.txt
git -C /repo worktree add -q $WT HEAD || exit 2
cd $WT
run_suite() { PYTHONPATH=$WT /venv/bin/python -m pytest -q -p no:cacheprovider --timeout=900 -x --co -q >/dev/null 2>&1; PYTHONPATH=$WT /venv/bin/python -m pytest -q -p no:cacheprovider --timeout=900 -n 8 2>/dev/null | grep -E '^(FAILED|ERROR)' | sort; }
if [ ! -s $BASE ]; then mkdir -p /root/scratch; PYTHONPATH=$WT /venv/bin/python -m pytest -q -p no:cacheprovider --timeout=900 2>/dev/null | grep -E '^(FAILED|ERROR)' | sort > $BASE; fi
PYTHONPATH=$WT /venv/bin/python $D/demo.py > /tmp/sv-clean-$$.log 2>&1; RC_CLEAN=$?
git apply $D/patch.diff; RC_APPLY=$?
PYTHONPATH=$WT /venv/bin/python $D/demo.py > /tmp/sv-mut-$$.log 2>&1; RC_MUT=$?
PYTHONPATH=$WT /venv/bin/python -m pytest -q -p no:cacheprovider --timeout=900 2>/dev/null | grep -E '^(FAILED|ERROR)' | sort > /tmp/sv-failed-$$.txt
if diff -q $BASE /tmp/sv-failed-$$.txt >/dev/null; then SUITE=same; else SUITE=DIFFERENT; fi
echo "seed=$D clean_rc=$RC_CLEAN apply_rc=$RC_APPLY mutated_rc=$RC_MUT suite=$SUITE"
tail -3 /tmp/sv-mut-$$.log | cut -c1-300
cd /; git -C /repo worktree remove --force $WT; rm -f /tmp/sv-*-$$.*
[ $RC_CLEAN -eq 0 ] && [ $RC_APPLY -eq 0 ] && [ $RC_MUT -ne 0 ] && [ $SUITE = same ]
