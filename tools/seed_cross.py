#!/usr/bin/env python3
"""tools/seed_cross.py: run every seeded change against every OTHER check whose anchored files include a file the
patch touches; writes seeded/CROSS.md.  Scratch worktrees only (VERIF_REPO); /repo is never touched."""
import glob, json, os, re, subprocess, sys
from concurrent.futures import ThreadPoolExecutor
ROOT = '/verif'
anch = {}
for line in open(os.path.join(ROOT, 'properties.jsonl')):
    d = json.loads(line); anch[d['id']] = set(d['anchors']['files'])
jobs = []
for d in sorted(glob.glob(os.path.join(ROOT, 'seeded/C*-*'))):
    n = os.path.basename(d); own = n.split('-')[0]
    files = set(re.findall(r'^\+\+\+ b/(\S+)', open(os.path.join(d, 'patch.diff')).read(), re.M))
    for pid, fs in sorted(anch.items()):
        if pid != own and fs & files:
            jobs.append((n, pid))
if len(sys.argv) > 1:
    jobs = [j for j in jobs if j[0] in sys.argv[1:]]
os.makedirs(os.path.join(ROOT, 'build/crosslogs'), exist_ok=True)
JOBS = int(os.environ.get('JOBS', '6'))
copies = ['/tmp/vx-%d-%d' % (os.getpid(), k) for k in range(JOBS)]
for c in copies:      # one scratch copy of /verif per worker: a Coq tree cannot be shared between different source trees
    subprocess.run(['rsync', '-a', '--delete', '--exclude', '.git', '--exclude', 'seeded', '--exclude', 'replays',
                    '--exclude', '__pycache__', ROOT + '/', c + '/'], check=True)
free = list(copies)
def run(j):
    n, pid = j
    c = free.pop()
    wt = '/tmp/wt-cross-%s-%s-%d' % (n, pid, os.getpid())
    try:
        subprocess.run(['git', '-C', '/repo', 'worktree', 'add', '-q', wt, 'HEAD'], check=True)
        if subprocess.run(['git', '-C', wt, 'apply', os.path.join(ROOT, 'seeded', n, 'patch.diff')]).returncode:
            return n, pid, 'seed=%s PATCH-DOES-NOT-APPLY' % n
        p = subprocess.run([os.path.join(c, 'check'), pid], stdout=subprocess.PIPE, stderr=subprocess.STDOUT, text=True,
                           env=dict(os.environ, VERIF_ROOT=c, VERIF_REPO=wt))
        out = p.stdout
        open(os.path.join(ROOT, 'build/crosslogs/%s.%s.log' % (n, pid)), 'w').write(out)
        v = ' '.join(x[:400] for x in out.splitlines() if re.match(r'(VIOLATION|OK|failure:|correspondence|PROOF-PROBLEM)', x))
        return n, pid, 'seed=%s check=%s rc=%d :: %s' % (n, pid, p.returncode, v)
    finally:
        subprocess.run(['git', '-C', '/repo', 'worktree', 'remove', '--force', wt])
        free.append(c)
import shutil
try:
    with ThreadPoolExecutor(JOBS) as ex:
        res = list(ex.map(run, jobs))
finally:
    for c in copies:
        shutil.rmtree(c, ignore_errors=True)
rows = ['| change | other check | exit | verdict |', '|---|---|---|---|']
for n, pid, l in res:
    m = re.search(r' rc=(\d+) ', l)
    rc = m.group(1) if m else '?'
    kind = re.search(r'"kind": "([^"]+)"', l)
    if rc == '0': v = 'OK (not affected / not observable by this property)'
    elif 'no-failing-input-found' in l: v = 'VIOLATION, no-failing-input-found (proof or correspondence only)'
    elif rc == '1': v = 'VIOLATION with a concrete failing input' + (' (`%s`)' % kind.group(1) if kind else '')
    else: v = l[-120:].replace('|', '/')
    rows.append('| %s | %s | %s | %s |' % (n, pid, rc, v))
# rows of changes not re-run this time are kept
path = os.path.join(ROOT, 'seeded/CROSS.md')
if len(sys.argv) > 1 and os.path.exists(path):
    done = set((n, pid) for n, pid, _ in res)
    for l in open(path).read().splitlines()[2:]:
        c = [x.strip() for x in l.split('|')]
        if len(c) > 3 and (c[1], c[2]) not in done:
            rows.append(l)
    def key(l):
        c = [x.strip() for x in l.split('|')]
        m = re.match(r'(C\d+)-(\d+)$', c[1])
        return (m.group(1), int(m.group(2)), c[2]) if m else ('', 0, '')
    rows = rows[:2] + sorted(rows[2:], key=key)
open(path, 'w').write('\n'.join(rows) + '\n')
print(len(jobs), 'jobs')
