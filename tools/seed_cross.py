#!/usr/bin/env python3
"""tools/seed_cross.py: run every seeded change against every OTHER check whose anchored files include a file the
patch touches; writes seeded/CROSS.md.  Scratch worktrees only (VERIF_REPO); /repo is never touched."""
import glob, json, os, re, subprocess, sys
from concurrent.futures import ThreadPoolExecutor
ROOT = '/verif'
anch = {}
for line in open(os.path.join(ROOT, 'properties.jsonl')):
    d = json.loads(line); anch[d['id']] = set(d['anchors']['files'])
jobs = []
for d in sorted(glob.glob(os.path.join(ROOT, 'seeded/C*-*'))):
    n = os.path.basename(d); own = n.split('-')[0]
    files = set(re.findall(r'^\+\+\+ b/(\S+)', open(os.path.join(d, 'patch.diff')).read(), re.M))
    for pid, fs in sorted(anch.items()):
        if pid != own and fs & files:
            jobs.append((n, pid))
if len(sys.argv) > 1:
    jobs = [j for j in jobs if j[0] in sys.argv[1:]]
os.makedirs(os.path.join(ROOT, 'build/crosslogs'), exist_ok=True)
def run(j):
    n, pid = j
    out = subprocess.run(['/verif/tools/seed_run.sh', n, pid], stdout=subprocess.PIPE, stderr=subprocess.STDOUT, text=True).stdout
    open(os.path.join(ROOT, 'build/crosslogs/%s.%s.log' % (n, pid)), 'w').write(out)
    l = [x for x in out.splitlines() if x.startswith('seed=')]
    return n, pid, (l[0] if l else out[-300:])
# one job per property at a time is not required (distinct Gen files), but keep the load moderate
with ThreadPoolExecutor(4) as ex:
    res = list(ex.map(run, jobs))
rows = ['| change | other check | exit | verdict |', '|---|---|---|---|']
for n, pid, l in res:
    m = re.search(r' rc=(\d+) ', l)
    rc = m.group(1) if m else '?'
    kind = re.search(r'"kind": "([^"]+)"', l)
    if rc == '0': v = 'OK (not affected / not observable by this property)'
    elif 'no-failing-input-found' in l: v = 'VIOLATION, no-failing-input-found (proof or correspondence only)'
    elif rc == '1': v = 'VIOLATION with a concrete failing input' + (' (`%s`)' % kind.group(1) if kind else '')
    else: v = l[-120:].replace('|', '/')
    rows.append('| %s | %s | %s | %s |' % (n, pid, rc, v))
open(os.path.join(ROOT, 'seeded/CROSS.md'), 'w').write('\n'.join(rows) + '\n')
print(len(jobs), 'jobs')
