#!/bin/bash
# MANIFEST.setup_cmd: regenerate Gen/*.v from /repo, build every .vo (full build, never -vos),
# extract and compile every model runner.  Offline; uses only what is on disk.
set -u
export PYTHONPATH=/repo:/verif/harness PYTHONHASHSEED=0 PYTHONDONTWRITEBYTECODE=1 NOTE_SEQ_VERIF=1
cd /verif
mkdir -p build evidence replays
/venv/bin/python -W ignore - <<'PY'
import sys, glob, os
from vt import engine
errs = engine.regenerate_all_gen()
for k, v in errs.items():
    print('gen', k, 'FAILED', v)
engine.ensure_makefile()
PY
( cd coq && timeout 7000 make -j16 2>&1 | tail -40 )
/venv/bin/python -W ignore - <<'PY'
import glob, os, sys
from concurrent.futures import ThreadPoolExecutor
from vt import engine
pids = sorted(os.path.basename(f)[:-2] for f in glob.glob('/verif/coq/Run/C*.v'))
def b(pid):
    try:
        engine.build_runner(pid); return pid, 'ok'
    except Exception as e:
        return pid, 'FAILED %s' % str(e)[:500]
with ThreadPoolExecutor(8) as ex:
    for pid, st in ex.map(b, pids):
        print('runner', pid, st)
PY
exit 0
